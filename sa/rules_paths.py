"""PT1-PT5: object names reach path strings only through quote doubling; no ad-hoc path parsing;
encoder/decoder alphabet agreement; name-keyed vs path-keyed maps (property C16)."""
import ast

from .registry import rule
from .core import call_name, dotted, walk_shallow, walk_body, unparse, AnchorMissing


def find_path_encoder(prog):
    """the function that turns a group and a channel name into a path string, found by what it does: it (or a helper it calls)
    doubles the quote character of a name (x.replace(Q, Q + Q) with constant Q) and it takes the two names; the historical name
    is the fallback"""
    from .flow import resolve_call
    quoting = []
    for f in sorted(prog.functions.values(), key=lambda f: f.qual):
        if f.module.name != "common":
            continue
        for c in walk_body(f.node):
            if isinstance(c, ast.Call) and isinstance(c.func, ast.Attribute) and c.func.attr == "replace" and len(c.args) == 2:
                a, b = prog.try_fold(c.args[0], f.module), prog.try_fold(c.args[1], f.module)
                if isinstance(a, str) and isinstance(b, str) and len(a) == 1 and b == a + a and f not in quoting:
                    quoting.append(f)
    cands = list(quoting)
    for f in sorted(prog.functions.values(), key=lambda f: f.qual):
        if f.module.name == "common" and f not in cands and any(
                isinstance(c, ast.Call) and any(t in quoting for t, _k in resolve_call(prog, f, f.cls, c)) for c in walk_body(f.node)):
            cands.append(f)
    nparams = lambda f: len([p for p in f.params if not (f.cls is not None and not f.is_static and p in ("self", "cls"))])
    cands = [f for f in cands if f.name != "__init__" and nparams(f) >= 2]
    if cands:
        return sorted(cands, key=lambda f: (-nparams(f), f.qual))[0]
    return prog.func("common._components_to_path")


def _encoder_alphabet(prog):
    """(FuncInfo, (S, Q) or None, reason).  The encoder is put in normal form and compared, for every combination of absent (None),
    empty and non-empty group / channel names, with  S + S.join(Q + name.replace(Q, QQ) + Q  for each name that is not None)."""
    from .sym import Sym, show
    from .sem import match, W, enumerate_list, optional_string_oracle
    fi = find_path_encoder(prog)
    v = Sym(prog, fi, fi.cls).function_value()
    b = match(("binop", "+", (("const", W("S")), ("method", "join", ("const", W("S2")), (W("seq"),), ()))), v)
    if b is None:
        return fi, "?", "result `%s` is not of the form <separator> + <separator>.join(<components>)" % show(v)[:120]
    S = b["S"]
    if b["S2"] != S:
        return fi, None, "prefix %r and join separator %r differ" % (S, b["S2"])
    params = [("param", p) for p in fi.params if not (fi.cls is not None and not fi.is_static and p in ("self", "cls"))]
    Q = None
    for vals in [(g, c) for g in (None, "", "x") for c in (None, "", "x")]:
        assign = dict(zip(params, vals))
        lst = enumerate_list(b["seq"], optional_string_oracle(assign))
        if lst is None:
            return fi, "?", "component list `%s` not understood" % show(b["seq"])[:160]
        want_names = [p for p, val in zip(params, vals) if val is not None]
        if len(lst) != len(want_names):
            dropped = [p[1] + ("=''" if val == "" else "") for p, val in zip(params, vals) if val is not None]
            return fi, None, "for %s the encoder emits %d component(s) instead of %d: a name that is an empty string (or otherwise falsy) is dropped, so " \
                "group '' / channel '' alias the root or the group" % (", ".join(dropped) or "no names", len(lst), len(want_names))
        for elt, p in zip(lst, want_names):
            e = match(("binop", "+", (("binop", "+", (("const", W("Q")), W("mid"))), ("const", W("Q2")))), elt)
            if e is None:
                return fi, None, "a component is not wrapped as quote + escaped + quote: `%s`" % show(elt)[:100]
            if e["Q"] != e["Q2"]:
                return fi, None, "opening quote %r and closing quote %r differ" % (e["Q"], e["Q2"])
            Q = e["Q"]
            m = match(("method", "replace", W("x"), (("const", W("a")), ("const", W("b"))), ()), e["mid"])
            if m is None:
                return fi, None, "the component is inserted without doubling its quotes (`%s`)" % show(e["mid"])[:100]
            if m["x"] != p:
                return fi, None, "component %s is encoded from `%s`" % (p[1], show(m["x"]))
            if m["a"] != Q or m["b"] != Q + Q:
                return fi, None, "replace(%r, %r) does not double the quote character %r" % (m["a"], m["b"], Q)
    return fi, (S, Q), "ok"


@rule("PT1", "names reach object-path strings only through the quote-doubling encoder", floor=9)
def pt1(ctx, R):
    from .kinds import NAME, PATH, OBJ
    from .sym import Sym, eval_cond, show
    from .sem import optional_string_oracle
    prog = ctx.prog
    fi, alpha, why = _encoder_alphabet(prog)
    if alpha == "?":
        R.undecided("%s::encoder" % fi.qual, fi.where(), why)
    else:
        R.check(alpha is not None and alpha == ("/", "'"), "%s::encoder" % fi.qual, fi.where(),
                "'/' + '/'.join(\"'\" + c.replace(\"'\", \"''\") + \"'\") over the names that are not None", "the path encoder lost its shape: %s" % why)
    # every producer of an object path yields a PATH: the kind that only the encoder, str(ObjectPath) and the root literal create
    K = ctx.kinds()
    producers = ["common.ObjectPath.__str__", "common.ObjectPath.group_path", "writer.RootObject.path", "writer.GroupObject.path",
                 "writer.ChannelObject.path", "tdms.TdmsGroup.path", "tdms.TdmsChannel.path"]
    for q in producers:
        f = prog.func(q)
        node = K.names.get(("r", q))
        got = K.kind(node) if node is not None else None
        if got is None:
            formats = any(isinstance(n, (ast.JoinedStr,)) or (isinstance(n, ast.BinOp) and isinstance(n.op, (ast.Mod, ast.Add)) and any(
                isinstance(x, ast.Constant) and isinstance(x.value, str) for x in (n.left, n.right))) or (
                isinstance(n, ast.Call) and isinstance(n.func, ast.Attribute) and n.func.attr in ("format", "join")) for n in ast.walk(f.node))
            if formats:
                R.violation(q, f.where(), "the object path is produced by string formatting instead of the shared encoder: names containing quotes or "
                            "slashes are no longer escaped consistently")
            else:
                R.undecided(q, f.where(), "kind of the result not inferred")
        else:
            R.check(got == PATH, q, f.where(), "yields a PATH (encoder result / str of an ObjectPath / root literal)",
                    "yields a %s, not an encoded object path" % got)
    # ObjectPath keeps the names it was given: its fields are unified with the components passed in, i.e. stored unchanged
    init = prog.func("common.ObjectPath.__init__")
    va = init.node.args.vararg
    comp = K.child(K.names[("v", init.qual, va.arg)], "k") if va is not None and ("v", init.qual, va.arg) in K.names else None
    pc = prog.cls("common.ObjectPath")
    for attr in ("group", "channel"):
        fn = K.field_node(pc, attr)
        ok = comp is not None and fn is not None and K.find(fn) == K.find(comp)
        R.check(ok, "common.ObjectPath.__init__::%s kept" % attr, init.where(), "%s is one of the given components, unchanged" % attr,
                "the %s stored differs from the component given (it is transformed or comes from elsewhere)" % attr)
    # the kind predicates distinguish absent (None) from empty names
    G, C = ("self", "group"), ("self", "channel")
    truth = {"is_root": lambda g, c: g is None, "is_group": lambda g, c: g is not None and c is None, "is_channel": lambda g, c: c is not None}
    for name, want in truth.items():
        f = prog.func("common.ObjectPath." + name)
        v = Sym(prog, f, f.cls).function_value()
        bad = None
        unknown = False
        for g in (None, "", "x"):
            for c in (None, "", "x"):
                if g is None and c is not None:
                    continue
                r = eval_cond(v, optional_string_oracle({G: g, C: c}))
                if r is None:
                    unknown = True
                elif bool(r) != want(g, c):
                    bad = (g, c, r)
        q = "common.ObjectPath." + name
        if bad:
            R.violation(q, f.where(), "`%s` is %s for group=%r, channel=%r: truthiness instead of `is None` treats the empty name as absent" % (
                show(v)[:80], bad[2], bad[0], bad[1]))
        elif unknown:
            R.undecided(q, f.where(), "predicate `%s` not decided" % show(v)[:80])
        else:
            R.ok(q, f.where(), show(v)[:80])
    # no other code formats a path by hand
    for mod in prog.modules.values():
        for n in ast.walk(mod.tree):
            lits = []
            if isinstance(n, ast.BinOp) and isinstance(n.op, (ast.Mod, ast.Add)):
                lits = [x.value for x in (n.left, n.right) if isinstance(x, ast.Constant) and isinstance(x.value, str)]
            elif isinstance(n, ast.JoinedStr):
                lits = [x.value for x in n.values if isinstance(x, ast.Constant) and isinstance(x.value, str)]
            elif isinstance(n, ast.Call) and isinstance(n.func, ast.Attribute) and n.func.attr == "format" and isinstance(n.func.value, ast.Constant) \
                    and isinstance(n.func.value.value, str):
                lits = [n.func.value.value]
            if any(l.startswith("/'") or "'/'" in l for l in lits):
                inside = mod.name == "common"
                if not inside:
                    R.violation("%s::hand-formatted path" % mod.name, "%s:%d" % (mod.relpath, n.lineno),
                                "`%s` builds an object path by string formatting outside the encoder" % unparse(n)[:70])


@rule("PT2", "object paths are never parsed ad hoc (split / strip / positional slicing)", floor=2)
def pt2(ctx, R):
    """Uses the inferred string kinds: a str method that takes a string apart (or alters it), or a slice, applied to a value
    inferred to be an object PATH or an object NAME, outside the encoder/decoder of common.py."""
    from .kinds import NAME, PATH
    from .region import call_reaches
    prog = ctx.prog
    K = ctx.kinds()
    n_sites = 0
    TAKE_APART = ("split", "rsplit", "strip", "lstrip", "rstrip", "partition", "rpartition", "slice", "splitlines", "find", "index", "rfind")
    ALTER = ("strip", "lstrip", "rstrip", "lower", "upper", "replace", "title", "casefold", "translate", "capitalize", "swapcase", "expandtabs", "slice")
    seen_calls = set()
    for fi, c, recv, m in K.parses:
        if (id(c), m) in seen_calls:
            continue
        seen_calls.add((id(c), m))
        k = K.kind(recv)
        if k == PATH and m in TAKE_APART:
            n_sites += 1
            R.violation("%s::%s" % (fi.qual, unparse(c)[:50]), fi.where(c), "an object path is taken apart with %s (`%s`): quotes and slashes inside names are "
                        "not separators and doubled quotes are not undone; names must come from ObjectPath.from_string" % (
                            "a positional slice" if m == "slice" else "str.%s" % m, unparse(c)[:60]))
        elif k in (PATH, NAME) and m == "normalize":
            n_sites += 1
            R.violation("%s::%s" % (fi.qual, unparse(c)[:50]), fi.where(c), "an object %s is rewritten with unicodedata.normalize (`%s`): names are arbitrary strings, "
                        "two objects whose names differ only in Unicode normal form would become one" % ("path" if k == PATH else "name", unparse(c)[:60]))
        elif k == NAME and m in ALTER:
            n_sites += 1
            R.violation("%s::%s" % (fi.qual, unparse(c)[:50]), fi.where(c), "an object name is altered with %s (`%s`): names are arbitrary strings and must be "
                        "written, looked up and reported unchanged" % ("a positional slice" if m == "slice" else "str.%s" % m, unparse(c)[:60]))
    # names are obtained from paths only through the decoder: ObjectPath.from_string hands the string to the decoder and builds the
    # ObjectPath from exactly the decoded components
    fs = prog.func("common.ObjectPath.from_string")
    dec = K.decoder
    rnode = K.names.get(("r", fs.qual))
    pnode = K.names.get(("v", fs.qual, [p for p in fs.params if p not in ("cls", "self")][0]))
    R.check(K.kind(pnode) == PATH and K.kind(rnode) == "OBJ", "common.ObjectPath.from_string", fs.where(),
            "takes a PATH, returns an ObjectPath built from the decoder's components", "from_string no longer decodes with %s (parameter kind %s, result kind %s)" % (
                dec.qual, K.kind(pnode), K.kind(rnode)))
    init = prog.func("common.ObjectPath.__init__")
    va = init.node.args.vararg
    comp = K.child(K.names.get(("v", init.qual, va.arg)), "k") if va is not None and ("v", init.qual, va.arg) in K.names else None
    same = comp is not None and K.find(comp) == K.find(K.child(K.names[("r", dec.qual)], "k"))
    R.check(same, "common.ObjectPath.from_string::components", fs.where(), "the decoded components are the names of the ObjectPath, unchanged",
            "the components given to ObjectPath are not the decoder's output unchanged")
    cg = ctx.callgraph()
    users = []
    for q in ("tdms.TdmsFile._read_file", "writer.TdmsWriter.write_segment"):
        f = prog.func(q)
        if any(call_reaches(ctx, f, c, {fs.qual}) for c in walk_body(f.node) if isinstance(c, ast.Call)):
            users.append(q)
    R.check(len(users) == 2, "ObjectPath.from_string::users", fs.where(),
            "reader hierarchy and writer both decode through from_string", "from_string is reached from %s only" % users)
    R.note("ad-hoc path parsing sites found: %d; string take-apart/alter calls seen: %d" % (n_sites, len(K.parses)))


@rule("PT3", "the path scanner and the encoder use the same alphabet and the scanner consumes doubled quotes as one", floor=5)
def pt3(ctx, R):
    """The decoder (common._path_components and the helpers it calls) is examined for the facts every correct scanner of this
    grammar needs, whatever its loop structure: it compares characters with exactly the encoder's separator and quote; it
    looks at (character, next character) pairs and does not split on a separator pattern; the statement that emits a quote
    character into the name runs exactly when the current and the next character are both quotes, and consumes the second one;
    the statement that ends a component runs when the current character is a quote and the next one is not."""
    from .sym import Sym, eval_cond, show
    from .sem import module_region, find, W
    prog = ctx.prog
    fi, alpha, why = _encoder_alphabet(prog)
    if alpha is None or alpha == "?":
        R.undecided("common._components_to_path", fi.where(), "encoder not understood: %s" % why)
        alpha = ("/", "'")
    S, Q = alpha
    pc = prog.func("common._path_components")
    region = module_region(prog, pc)
    def char_const(f, n):
        """a one-character string: a literal, or a name of a module constant that is one"""
        if isinstance(n, ast.Constant) and isinstance(n.value, str) and len(n.value) == 1:
            return n.value
        if isinstance(n, ast.Name) and isinstance(n.ctx, ast.Load):
            r = prog.resolve_name(f.module, n.id)
            if r and r[0] == "const":
                v = prog.try_fold(r[1], r[2], default=None)
                if isinstance(v, str) and len(v) == 1:
                    return v
        return None
    consts = {char_const(f, n) for f in region for n in ast.walk(f.node) if char_const(f, n) is not None and not _in_raise(f, n)}
    if not consts:
        R.unrecognised("common._path_components::alphabet", pc.where(), "the scanner compares with no one-character constant: its alphabet was not recognised")
    else:
        R.check(consts == {S, Q}, "common._path_components::alphabet", pc.where(), "scanner compares with %r and %r only" % (S, Q),
                "scanner alphabet %s differs from the encoder's separator %r and quote %r" % (sorted(consts), S, Q))
    splitting = [(f, n) for f in region for n in ast.walk(f.node) if isinstance(n, ast.Call) and isinstance(n.func, ast.Attribute)
                 and n.func.attr in ("split", "rsplit", "partition", "rpartition", "findall", "finditer", "match", "fullmatch", "search")]
    pairs = [(f, n) for f in region for n in ast.walk(f.node) if isinstance(n, ast.Call) and (call_name(n) or "").split(".")[-1] in ("zip_longest", "zip", "pairwise")]
    key = "common._path_components::character-pair scanner"
    if splitting:
        f, n = splitting[0]
        R.violation(key, f.where(n), "the decoder is not a character scanner: it takes the path apart with `%s`: a quote next to a slash inside a name is then taken "
                    "for a component boundary" % unparse(n)[:60])
    elif pairs:
        R.ok(key, pairs[0][0].where(pairs[0][1]), "scans (char, next_char) pairs")
    else:
        R.undecided(key, pc.where(), "neither a pair scanner nor a splitting decoder recognised")
    # statements that put a literal quote into the name / that end a component, with the conditions under which they run
    QC = ("const", Q)
    emit, finish = [], []
    for f in region:
        sy = Sym(prog, f, None, inline=False)
        for st in walk_body(f.node):
            lit = None
            def lit_of(e):
                if isinstance(e, ast.Constant) and isinstance(e.value, str):
                    return e.value
                return char_const(f, e)
            if isinstance(st, ast.AugAssign) and isinstance(st.op, ast.Add) and lit_of(st.value) is not None:
                lit = lit_of(st.value)
            elif isinstance(st, ast.Expr) and isinstance(st.value, ast.Call) and isinstance(st.value.func, ast.Attribute) and st.value.func.attr in ("append", "extend", "write") \
                    and st.value.args and lit_of(st.value.args[0]) is not None:
                lit = lit_of(st.value.args[0])
            if lit is not None and Q in lit:
                _env, guards = sy.env_at(st)
                emit.append((f, st, lit, guards))
            val = None
            if isinstance(st, ast.Expr) and isinstance(st.value, ast.Yield):
                val = st.value.value
            elif isinstance(st, ast.Return) and st.value is not None and f is not pc:
                val = st.value
            if val is not None and isinstance(val, ast.Call) and isinstance(val.func, ast.Attribute) and val.func.attr == "join":
                _env, guards = sy.env_at(st)
                finish.append((f, st, guards))

    def operands(guards):
        """the two things compared with the quote: (current, lookahead)"""
        ops = []
        for g in guards:
            for x, b in find(g, ("cmp", W("op"), W("a"), QC)):
                if b["op"] in ("==", "!=") and b["a"] not in ops:
                    ops.append(b["a"])
        cur = [o for o in ops if o[0] == "item" and o[2] == 0]
        nxt = [o for o in ops if o[0] == "item" and o[2] == 1]
        return (cur[0] if cur else None), (nxt[0] if nxt else None)

    def runs(guards, cur, nxt, vcur, vnxt):
        def orc(c):
            if c == ("cmp", "==", cur, QC):
                return vcur
            if c == ("cmp", "!=", cur, QC):
                return not vcur
            if nxt is not None and c == ("cmp", "==", nxt, QC):
                return vnxt
            if nxt is not None and c == ("cmp", "!=", nxt, QC):
                return not vnxt
            return None
        # only the conditions that compare something with the quote say when the statement runs for a given (current, next) pair;
        # the others (separator checks, end of input) are satisfiable either way
        vals = [eval_cond(g, orc) for g in guards if find(g, ("cmp", W(), W(), QC))]
        if any(v is False for v in vals):
            return False
        return True if all(v is True for v in vals) else None
    key = "common._path_components::doubled quote yields one quote"
    if not emit:
        R.undecided("common._path_components::doubled quote", pc.where(), "no statement that emits a literal quote into the name was recognised")
    for f, st, lit, guards in emit:
        cur, nxt = operands(guards)
        if (cur is None or nxt is None) and any(find(g, ("method", nm_, W(), W(), W())) for g in guards for nm_ in ("find", "index", "partition", "search", "match")):
            # the scanner locates quotes with str.find / a pattern instead of looking at each character: "the current character is a
            # quote" is implicit in the position found, which the pair test of this rule does not model
            R.unrecognised("common._path_components::doubled quote", f.where(st), "quotes are located with a search (%s), not by testing each character: the "
                           "condition under which a quote is emitted into the name is not decided" % "; ".join(show(g) for g in guards)[:160])
            continue
        if cur is None or nxt is None:
            R.violation("common._path_components::doubled quote", f.where(st), "a quote is emitted into the name without testing that both the current and the "
                        "next character are quotes (conditions: %s)" % "; ".join(show(g) for g in guards)[:200])
            continue
        both = runs(guards, cur, nxt, True, True)
        single = runs(guards, cur, nxt, True, False)
        other = runs(guards, cur, nxt, False, True)
        if None in (single, other):
            R.unrecognised("common._path_components::doubled quote", f.where(st), "the conditions under which the quote is emitted were not decided (%s)" % (
                "; ".join(show(g) for g in guards)[:160]))
            continue
        R.check(both is not False and single is False and other is False, "common._path_components::doubled quote", f.where(st),
                "emitted exactly when current and next character are quotes",
                "the quote is emitted under the wrong condition (runs for quote+quote: %s, quote+other: %s, other+quote: %s)" % (both, single, other))
        R.check(lit == Q, key, f.where(st), "appends one quote character", "a doubled quote does not decode to exactly one quote character (emits %r)" % lit)
        # the second quote is consumed in the same block
        block = _enclosing_block(f, st)
        is_next = lambda c: isinstance(c, ast.Call) and (call_name(c) == "next" or (isinstance(c.func, ast.Attribute) and c.func.attr == "__next__"))
        consumes = [c for s2 in block for c in ast.walk(s2) if is_next(c)]
        any_next = any(is_next(c) for c in ast.walk(f.node))
        if not consumes and not any_next:
            # a scanner that does not pull characters with next() at all (e.g. a state machine over a for loop): how it skips the
            # second quote is not modelled
            R.undecided("common._path_components::second quote consumed", f.where(st), "the scanner does not advance with next(); how the second quote "
                        "of a doubled quote is skipped was not recognised")
        else:
            R.check(len(consumes) == 1, "common._path_components::second quote consumed", f.where(st), "next(...) skips the second quote",
                "the second quote of a doubled quote is not consumed exactly once (%d next() calls in the branch): it would end the component" % len(consumes))
    key = "common._path_components::closing quote after the pair test"
    decided = False
    for f, st, guards in finish:
        cur, nxt = operands(guards)
        if cur is None:
            continue
        decided = True
        both = runs(guards, cur, nxt, True, True) if nxt is not None else True
        single = runs(guards, cur, nxt, True, False)
        plain = runs(guards, cur, nxt, False, False)
        if both is None or plain is None:
            R.unrecognised(key, f.where(st), "the conditions under which a component is ended were not decided (%s)" % "; ".join(show(g) for g in guards)[:160])
            continue
        R.check(both is False and single is not False and plain is False, key, f.where(st), "a single quote ends the component and yields it",
                "the component is ended under the wrong condition (runs for quote+quote: %s, quote+other: %s, other: %s): the end-of-component test must "
                "not fire on the first quote of a doubled quote" % (both, single, plain))
    if not decided:
        R.undecided(key, pc.where(), "no statement that ends a component under a quote test was recognised")
    # separator handling: some comparison of a scanned character with the separator guards a raise
    sep = False
    for f in region:
        cfg = ctx.cfg(f)
        sy = Sym(prog, f, None, inline=False)
        for t in cfg.where(lambda n: n.kind == "test"):
            env, _g = sy.env_at(t.ast)
            c = sy.expr(t.ast, env)
            if find(c, ("cmp", "!=", W(), ("const", S))) and any(m.kind == "raisestmt" for m, k in t.succ if k == "true"):
                sep = True
            if find(c, ("cmp", "==", W(), ("const", S))) and any(m.kind == "raisestmt" for m, k in t.succ if k == "false"):
                sep = True
    R.check(sep, "common._path_components::separator required", pc.where(), "each component must start with the separator", "separator check missing")


def _in_raise(f, node):
    for st in ast.walk(f.node):
        if isinstance(st, ast.Raise) and any(x is node for x in ast.walk(st)):
            return True
    return False


def _enclosing_block(f, st):
    """the statement list that directly contains st"""
    for n in ast.walk(f.node):
        for field in ("body", "orelse", "finalbody"):
            blk = getattr(n, field, None)
            if isinstance(blk, list) and any(x is st for x in blk):
                return blk
    return [st]


NAME_MAPS = {"self._groups", "self._channels", "group_properties", "group_channels"}
PATH_MAPS = {"self.object_metadata", "tdms_reader.object_metadata", "object_properties", "self._channel_data", "self._segment_channel_offsets",
             "self._prev_segment_objects", "previous_segment_objects", "self.object_index", "segment.object_index", "existing_objects",
             "chunk.channel_data", "raw_data_chunk.channel_data", "data_chunk.channel_data", "channel_offsets", "obj_chunk_sizes", "object_lengths",
             "self.final_chunk_lengths_override", "segment.final_chunk_lengths_override", "last_chunk_overrides", "properties_by_path", "datasets",
             "channels_to_export"}


def _key_kind(e):
    d = dotted(e) or ""
    leaf = d.split(".")[-1]
    if isinstance(e, ast.Constant) and e.value == "/":
        return "path"
    if leaf in ("path", "path_string", "object_path", "channel_path") or leaf.endswith("_path"):
        return "path"
    if isinstance(e, ast.Call) and (call_name(e) or "").endswith("group_path"):
        return "path"
    if isinstance(e, ast.Call) and call_name(e) == "str":
        return "path"
    if leaf in ("name", "group", "channel", "group_name", "channel_name"):
        return "name"
    return None


@rule("PT4", "maps keyed by names are indexed with names, maps keyed by path strings with path strings", floor=15)
def pt4(ctx, R):
    """Decided by the string-kind inference of sa/kinds.py: object names (NAME) and encoded object paths (PATH) are inferred
    for every local, parameter, field and container key from the flows of the program, seeded only by the encoder and the
    decoder of common.py.  Using a NAME where a PATH flows (or the reverse) - as a dictionary key, a set element, an
    argument, a comparison operand - is a conflict, reported with the chain of flows connecting the two seeds."""
    from .kinds import NAME, PATH, OBJ
    prog = ctx.prog
    K = ctx.kinds()
    for c in K.conflicts:
        ka, kb = K.kind(c.a), K.kind(c.b)
        chain = K.explain(c.a, c.b)
        key = "%s::%s" % (c.where.split(":")[0], c.why[:90])
        R.violation(key, c.where, "a %s meets a %s here (%s): a channel named like a path, or two objects whose names differ only in quoting, "
                    "would collide or be missed. Flow: %s" % (ka, kb, c.why, " <- ".join(chain)[:700]), path=chain)
    n = 0
    for fi, node, k, cont, txt in K.accesses:
        kk = K.kind(k)
        if kk in (NAME, PATH):
            n += 1
            R.ok("%s::%s" % (fi.qual, txt[:50]), fi.where(node), "%s-keyed container used with a %s" % (kk, kk))
    if n < 15:
        raise AnchorMissing("container accesses whose key kind is inferred (found %d)" % n)
    # the public API: what callers give and get
    api = [("tdms.TdmsFile.__getitem__", "param", 1, NAME), ("tdms.TdmsGroup.__getitem__", "param", 1, NAME),
           ("tdms.TdmsFile.__contains__", "param", 1, NAME), ("tdms.TdmsGroup.__contains__", "param", 1, NAME),
           ("tdms.TdmsGroup.name", "ret", None, NAME), ("tdms.TdmsChannel.name", "ret", None, NAME),
           ("tdms.TdmsGroup.path", "ret", None, PATH), ("tdms.TdmsChannel.path", "ret", None, PATH),
           ("writer.GroupObject.path", "ret", None, PATH), ("writer.ChannelObject.path", "ret", None, PATH), ("writer.RootObject.path", "ret", None, PATH)]
    for q, what, i, want in api:
        f = prog.func(q)
        node = K.names.get(("v", q, f.params[i])) if what == "param" else K.names.get(("r", q))
        got = K.kind(node) if node is not None else None
        key = "%s::%s" % (q, "key given by the caller" if what == "param" else "result")
        if got is None:
            R.undecided(key, f.where(), "kind not inferred")
        else:
            R.check(got == want, key, f.where(), "is a %s" % got, "is a %s, expected a %s" % (got, want))
    R.note("kind inference: %d functions analysed, %d nodes, %d container accesses (%d with inferred kind), %d conflicts" % (
        len(K.analysed), K.n_nodes, len(K.accesses), n, len(K.conflicts)))
