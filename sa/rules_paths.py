"""PT1-PT5: object names reach path strings only through quote doubling; no ad-hoc path parsing;
encoder/decoder alphabet agreement; name-keyed vs path-keyed maps (property C16)."""
import ast

from .registry import rule
from .core import call_name, dotted, walk_shallow, walk_body, unparse, AnchorMissing


def _encoder_alphabet(prog):
    """(S, Q) from common._components_to_path's return expression, or raises AnchorMissing/returns (None, why)."""
    fi = prog.func("common._components_to_path")
    rets = [n for n in walk_body(fi.node) if isinstance(n, ast.Return)]
    if len(rets) != 1:
        return fi, None, "expected one return"
    e = rets[0].value
    # S + S.join([Q + c.replace(Q, QQ) + Q for c in components])
    if not (isinstance(e, ast.BinOp) and isinstance(e.op, ast.Add) and isinstance(e.left, ast.Constant) and isinstance(e.left.value, str)):
        return fi, None, "result is not <separator> + <joined components>"
    S = e.left.value
    j = e.right
    if not (isinstance(j, ast.Call) and isinstance(j.func, ast.Attribute) and j.func.attr == "join" and isinstance(j.func.value, ast.Constant) and j.args):
        return fi, None, "components are not joined with a constant separator"
    if j.func.value.value != S:
        return fi, None, "prefix %r and join separator %r differ" % (S, j.func.value.value)
    comp = j.args[0]
    if not isinstance(comp, (ast.ListComp, ast.GeneratorExp)):
        return fi, None, "components are not mapped one by one"
    elt = comp.elt
    var = comp.generators[0].target.id if isinstance(comp.generators[0].target, ast.Name) else None
    # Q + c.replace(Q, QQ) + Q
    if not (isinstance(elt, ast.BinOp) and isinstance(elt.op, ast.Add) and isinstance(elt.right, ast.Constant)
            and isinstance(elt.left, ast.BinOp) and isinstance(elt.left.op, ast.Add) and isinstance(elt.left.left, ast.Constant)):
        return fi, None, "a component is not wrapped as quote + escaped + quote"
    Q = elt.left.left.value
    mid = elt.left.right
    if elt.right.value != Q:
        return fi, None, "opening quote %r and closing quote %r differ" % (Q, elt.right.value)
    if not (isinstance(mid, ast.Call) and isinstance(mid.func, ast.Attribute) and mid.func.attr == "replace" and dotted(mid.func.value) == var
            and len(mid.args) == 2 and all(isinstance(a, ast.Constant) for a in mid.args)):
        return fi, None, "the component is inserted without doubling its quotes (`%s`)" % unparse(mid)
    if mid.args[0].value != Q or mid.args[1].value != Q + Q:
        return fi, None, "replace(%r, %r) does not double the quote character %r" % (mid.args[0].value, mid.args[1].value, Q)
    if comp.generators[0].ifs:
        return fi, None, "components are filtered while being encoded (`%s`)" % unparse(comp.generators[0].ifs[0])
    return fi, (S, Q), "ok"


@rule("PT1", "names reach object-path strings only through the quote-doubling encoder", floor=9)
def pt1(ctx, R):
    prog = ctx.prog
    fi, alpha, why = _encoder_alphabet(prog)
    R.check(alpha is not None and alpha == ("/", "'"), "common._components_to_path::encoder", fi.where(),
            "'/' + '/'.join(\"'\" + c.replace(\"'\", \"''\") + \"'\")", "the path encoder lost its shape: %s" % why)
    producers = {
        "common.ObjectPath.__init__": ("self._path", "_components_to_path(self.group, self.channel)"),
        "common.ObjectPath.__str__": ("return", "self._path"),
        "common.ObjectPath.group_path": ("return", "_components_to_path(self.group, None)"),
        "writer.RootObject.path": ("return", "'/'"),
        "writer.GroupObject.path": ("return", "str(ObjectPath(self.group))"),
        "writer.ChannelObject.path": ("return", "str(ObjectPath(self.group, self.channel))"),
        "tdms.TdmsGroup.path": ("return", "str(self._path)"),
        "tdms.TdmsChannel.path": ("return", "str(self._path)"),
    }
    for q, (kind, want) in sorted(producers.items()):
        f = prog.func(q)
        if kind == "return":
            got = [unparse(n.value) for n in walk_body(f.node) if isinstance(n, ast.Return) and n.value is not None]
        else:
            got = [unparse(n.value) for n in walk_body(f.node) if isinstance(n, ast.Assign) and any(dotted(t) == kind for t in n.targets)]
        R.check(got == [want], q, f.where(), "path produced by %s" % want,
                "the object path is produced by %s instead of the shared encoder (%s): names containing quotes or slashes are no longer escaped "
                "consistently" % (got, want))
    # ObjectPath keeps the names it was given
    init = prog.func("common.ObjectPath.__init__")
    t = unparse(init.node)
    R.check("self.group = path_components[0]" in t and "self.channel = path_components[1]" in t, "common.ObjectPath.__init__::components kept", init.where(),
            "group/channel are the given components, unchanged", "the names stored differ from the components given")
    for q, want in (("common.ObjectPath.is_root", "self.group is None"), ("common.ObjectPath.is_group", "self.group is not None and self.channel is None"),
                    ("common.ObjectPath.is_channel", "self.channel is not None")):
        f = prog.func(q)
        got = [unparse(n.value) for n in walk_body(f.node) if isinstance(n, ast.Return)]
        R.check(got == [want], q, f.where(), want, "`%s` (truthiness instead of `is None` treats the empty name as absent)" % got)
    # no other code formats a path by hand
    for mod in prog.modules.values():
        for n in ast.walk(mod.tree):
            lits = []
            if isinstance(n, ast.BinOp) and isinstance(n.op, (ast.Mod, ast.Add)):
                lits = [x.value for x in (n.left, n.right) if isinstance(x, ast.Constant) and isinstance(x.value, str)]
            elif isinstance(n, ast.JoinedStr):
                lits = [x.value for x in n.values if isinstance(x, ast.Constant) and isinstance(x.value, str)]
            elif isinstance(n, ast.Call) and isinstance(n.func, ast.Attribute) and n.func.attr == "format" and isinstance(n.func.value, ast.Constant) \
                    and isinstance(n.func.value.value, str):
                lits = [n.func.value.value]
            if any(l.startswith("/'") or "'/'" in l for l in lits):
                inside = mod.name == "common"
                if not inside:
                    R.violation("%s::hand-formatted path" % mod.name, "%s:%d" % (mod.relpath, n.lineno),
                                "`%s` builds an object path by string formatting outside the encoder" % unparse(n)[:70])


@rule("PT2", "object paths are never parsed ad hoc (split / strip / positional slicing)", floor=2)
def pt2(ctx, R):
    prog = ctx.prog

    def pathish(e):
        d = dotted(e) or ""
        leaf = d.split(".")[-1]
        return "path" in leaf.lower() or (isinstance(e, ast.Call) and call_name(e) in ("str",) and e.args and "path" in unparse(e.args[0]).lower())
    n_sites = 0
    for fi in sorted(prog.functions.values(), key=lambda f: f.qual):
        if fi.module.name in ("common",):
            continue
        for n in walk_body(fi.node):
            if isinstance(n, ast.Call) and isinstance(n.func, ast.Attribute) and n.func.attr in ("split", "rsplit", "strip", "lstrip", "rstrip", "partition", "rpartition") \
                    and pathish(n.func.value) and fi.module.name not in ("export.hdf_export", "export.pandas_export"):
                n_sites += 1
                R.violation("%s::%s" % (fi.qual, unparse(n)[:50]), fi.where(n), "an object path is taken apart with str.%s: quotes and slashes inside names are "
                            "not separators; names must come from ObjectPath.from_string" % n.func.attr)
            if isinstance(n, ast.Subscript) and isinstance(n.slice, ast.Slice) and isinstance(n.slice.lower, ast.Constant) and n.slice.lower.value in (1, 2) \
                    and isinstance(n.slice.upper, ast.UnaryOp) and isinstance(n.slice.upper.op, ast.USub) and isinstance(n.slice.upper.operand, ast.Constant) \
                    and n.slice.upper.operand.value == 1 and fi.module.name in ("writer", "tdms", "reader", "tdmsinfo", "tdms_segment"):
                n_sites += 1
                R.violation("%s::%s" % (fi.qual, unparse(n)[:50]), fi.where(n), "`%s` strips delimiter characters by position: if this is an object path, doubled "
                            "quotes inside the name are not undone and the name changes" % unparse(n))
    # names are obtained from paths only through ObjectPath.from_string
    fs = prog.func("common.ObjectPath.from_string")
    t = unparse(fs.node)
    R.check("_path_components(path_string)" in t and "ObjectPath(*components)" in t, "common.ObjectPath.from_string", fs.where(),
            "decodes with the character scanner", "from_string no longer uses _path_components")
    users = [f.qual for f in prog.functions.values() if any(isinstance(c, ast.Call) and call_name(c) == "ObjectPath.from_string" for c in walk_body(f.node))]
    R.check({"tdms.TdmsFile._read_file", "writer.TdmsWriter.write_segment"} <= set(users), "ObjectPath.from_string::users", fs.where(),
            "reader hierarchy and writer both decode through from_string", "from_string is used by %s" % users)
    R.note("ad-hoc path parsing sites found: %d" % n_sites)


@rule("PT3", "the path scanner and the encoder use the same alphabet and the scanner consumes doubled quotes as one", floor=5)
def pt3(ctx, R):
    prog = ctx.prog
    fi, alpha, why = _encoder_alphabet(prog)
    if alpha is None:
        R.undecided("common._components_to_path", fi.where(), "encoder not understood: %s" % why)
        alpha = ("/", "'")
    S, Q = alpha
    pc = prog.func("common._path_components")
    consts = {n.value for n in ast.walk(pc.node) if isinstance(n, ast.Constant) and isinstance(n.value, str) and len(n.value) == 1}
    R.check(consts == {S, Q}, "common._path_components::alphabet", pc.where(), "scanner compares with %r and %r only" % (S, Q),
            "scanner alphabet %s differs from the encoder's separator %r and quote %r" % (sorted(consts), S, Q))
    src = unparse(pc.node)
    R.check(".split(" not in src and "zip_longest(path, path[1:])" in src, "common._path_components::character-pair scanner", pc.where(),
            "scans (char, next_char) pairs", "the decoder is not the character-pair scanner (e.g. it splits on a separator pattern): a quote next to a slash "
            "inside a name is then taken for a component boundary")
    # pair branch
    pair = None
    single = None
    for n in ast.walk(pc.node):
        if isinstance(n, ast.If):
            t = unparse(n.test)
            if t == "char == %r and next_char == %r" % (Q, Q) or t == 'char == "%s" and next_char == "%s"' % (Q, Q):
                pair = n
            if isinstance(n.test, ast.BoolOp) and isinstance(n.test.op, ast.And) and len(n.test.values) == 2 and all(
                    isinstance(v, ast.Compare) and isinstance(v.comparators[0], ast.Constant) and v.comparators[0].value == Q for v in n.test.values):
                pair = n
    if pair is None:
        R.violation("common._path_components::doubled quote", pc.where(), "no branch recognises the doubled quote (quote followed by quote) inside a name")
    else:
        body = " ".join(unparse(s) for s in pair.body)
        appends = [s for s in pair.body if isinstance(s, ast.AugAssign) and isinstance(s.value, ast.Constant) and s.value.value == Q]
        consumes = [s for s in pair.body for c in ast.walk(s) if isinstance(c, ast.Call) and call_name(c) == "next"]
        R.check(len(appends) == 1, "common._path_components::doubled quote yields one quote", pc.where(pair), "appends one quote character",
                "a doubled quote does not decode to exactly one quote character (`%s`)" % body)
        R.check(len(consumes) == 1, "common._path_components::second quote consumed", pc.where(pair), "next(chars) skips the second quote",
                "the second quote of a doubled quote is not consumed: it would end the component")
        # the single-quote (end of component) test comes after the pair test
        nxt = pair.orelse[0] if len(pair.orelse) == 1 and isinstance(pair.orelse[0], ast.If) else None
        ok = nxt is not None and unparse(nxt.test) in ("char == %r" % Q, 'char == "%s"' % Q) and any(isinstance(x, ast.Yield) for s in nxt.body for x in ast.walk(s))
        R.check(ok, "common._path_components::closing quote after the pair test", pc.where(pair), "a single quote ends the component and yields it",
                "the end-of-component test does not follow the doubled-quote test")
    # separator handling
    R.check(("char != %r" % S) in src or ('char != "%s"' % S) in src, "common._path_components::separator required", pc.where(),
            "each component must start with the separator", "separator check missing")


NAME_MAPS = {"self._groups", "self._channels", "group_properties", "group_channels"}
PATH_MAPS = {"self.object_metadata", "tdms_reader.object_metadata", "object_properties", "self._channel_data", "self._segment_channel_offsets",
             "self._prev_segment_objects", "previous_segment_objects", "self.object_index", "segment.object_index", "existing_objects",
             "chunk.channel_data", "raw_data_chunk.channel_data", "data_chunk.channel_data", "channel_offsets", "obj_chunk_sizes", "object_lengths",
             "self.final_chunk_lengths_override", "segment.final_chunk_lengths_override", "last_chunk_overrides", "properties_by_path", "datasets",
             "channels_to_export"}


def _key_kind(e):
    d = dotted(e) or ""
    leaf = d.split(".")[-1]
    if isinstance(e, ast.Constant) and e.value == "/":
        return "path"
    if leaf in ("path", "path_string", "object_path", "channel_path") or leaf.endswith("_path"):
        return "path"
    if isinstance(e, ast.Call) and (call_name(e) or "").endswith("group_path"):
        return "path"
    if isinstance(e, ast.Call) and call_name(e) == "str":
        return "path"
    if leaf in ("name", "group", "channel", "group_name", "channel_name"):
        return "name"
    return None


@rule("PT4", "maps keyed by names are indexed with names, maps keyed by path strings with path strings", floor=15)
def pt4(ctx, R):
    prog = ctx.prog
    n = 0
    for fi in sorted(prog.functions.values(), key=lambda f: f.qual):
        if fi.module.name in ("export.pandas_export",):
            continue
        for x in walk_body(fi.node):
            base = key = None
            if isinstance(x, ast.Subscript) and not isinstance(x.slice, ast.Slice):
                base, key = dotted(x.value), x.slice
            elif isinstance(x, ast.Call) and isinstance(x.func, ast.Attribute) and x.func.attr in ("get", "pop", "setdefault") and x.args:
                base, key = dotted(x.func.value), x.args[0]
            elif isinstance(x, ast.Compare) and len(x.ops) == 1 and isinstance(x.ops[0], (ast.In, ast.NotIn)):
                base, key = dotted(x.comparators[0]), x.left
            if base is None:
                continue
            want = "name" if base in NAME_MAPS else ("path" if base in PATH_MAPS else None)
            if want is None:
                continue
            if fi.cls is not None and fi.cls.name == "TdmsGroup" and base == "self._channels":
                want = "name"
            got = _key_kind(key)
            if got is None:
                continue
            n += 1
            k = "%s::%s[%s]" % (fi.qual, base, unparse(key)[:30])
            R.check(got == want, k, fi.where(x), "%s-keyed map indexed with a %s" % (want, got),
                    "`%s` is keyed by %ss but indexed with `%s`, a %s: a channel named like a path (or two objects whose names differ only in "
                    "quoting) would collide or be missed" % (base, want, unparse(key), got))
    if n < 15:
        raise AnchorMissing("classified map accesses (found %d)" % n)
    # the group/channel dictionaries are built from names
    g = prog.func("tdms.TdmsGroup.__init__")
    R.check("{c.name: c for c in channels}" in unparse(g.node), "tdms.TdmsGroup.__init__::channels by name", g.where(), "channels keyed by channel name",
            "channels are not keyed by their name")
    ws = prog.func("writer.TdmsWriter.write_segment")
    t = unparse(ws.node)
    for nm, want in (("groups_included", "p[0].group"), ("groups_required", "p[0].group")):
        ds = [x for x in walk_body(ws.node) if isinstance(x, ast.Assign) and dotted(x.targets[0]) == nm]
        ok = bool(ds) and want + " for" in unparse(ds[0].value)
        R.check(ok, "writer.TdmsWriter.write_segment::%s" % nm, ws.where(), "set of group NAMES", "`%s` is built from `%s`: written/required groups are "
                "no longer tracked by name, the names handed to GroupObject/ObjectPath would be path strings" % (nm, unparse(ds[0].value) if ds else None))
    add = [c for c in ast.walk(ws.node) if isinstance(c, ast.Call) and dotted(c.func) == "GroupObject"]
    R.check(bool(add) and all(len(c.args) == 1 and isinstance(c.args[0], ast.Name) for c in add), "writer.TdmsWriter.write_segment::implicit groups", ws.where(),
            "missing groups are created from their names", "implicit group objects are created from `%s`" % (unparse(add[0].args[0]) if add and add[0].args else None))
