"""Rule results, known-findings matching, evidence writing."""
import json
import os
import time

VERIF = os.path.dirname(os.path.dirname(os.path.abspath(__file__)))
KNOWN_FINDINGS = os.path.join(VERIF, "known_findings.json")
EVIDENCE_DIR = os.environ.get("SA_EVIDENCE_DIR") or os.path.join(VERIF, "evidence")

from .core import AnalysisError  # noqa: E402


class FloorUnmet(AnalysisError):
    pass


class Instance:
    __slots__ = ("key", "where", "verdict", "detail", "path")

    def __init__(self, key, where, verdict, detail="", path=None):
        self.key = key          # stable construct key (qualified names, never line numbers)
        self.where = where      # file:line (diagnostic only)
        self.verdict = verdict  # ok | violation | undecided
        self.detail = detail
        self.path = path        # optional list of steps for path rules

    def as_dict(self):
        d = {"key": self.key, "where": self.where, "verdict": self.verdict, "detail": self.detail}
        if self.path:
            d["path"] = self.path
        return d


class RuleResult:
    def __init__(self, rule, title, floor=0):
        self.rule = rule
        self.title = title
        self.floor = floor
        self.instances = []
        self.notes = []
        self.controls = []   # positive-control outcomes: (name, fired_as_expected)

    def _add(self, verdict, key, where, detail="", path=None):
        self.instances.append(Instance(key, where, verdict, detail, path))

    def ok(self, key, where, detail=""):
        self._add("ok", key, where, detail)

    def violation(self, key, where, detail="", path=None):
        self._add("violation", key, where, detail, path)

    def undecided(self, key, where, detail=""):
        self._add("undecided", key, where, detail)

    def unrecognised(self, key, where, detail=""):
        """the code the rule looks at has a shape the rule does not recognise: reported as undecided, and the instance floor
        (which guards against passing vacuously, not against saying 'not decided') is waived"""
        self._add("undecided", key, where, detail)
        self.floor_waived = True

    def check(self, cond, key, where, detail_ok="", detail_bad=""):
        if cond:
            self.ok(key, where, detail_ok)
        else:
            self.violation(key, where, detail_bad or detail_ok)
        return cond

    def note(self, text):
        self.notes.append(text)

    def control(self, name, fired):
        self.controls.append((name, bool(fired)))

    @property
    def violations(self):
        return [i for i in self.instances if i.verdict == "violation"]

    @property
    def undecideds(self):
        return [i for i in self.instances if i.verdict == "undecided"]

    def finish(self):
        """Floors and positive controls are checked here: a rule that matched
        fewer instances than were confirmed by hand cannot pass vacuously."""
        if len(self.instances) < self.floor and not getattr(self, "floor_waived", False):
            raise FloorUnmet("rule %s (%s) matched %d instances, floor is %d" % (
                self.rule, self.title, len(self.instances), self.floor))
        bad = [n for n, f in self.controls if not f]
        if bad:
            raise AnalysisError("rule %s: positive control(s) did not behave as expected: %s" % (
                self.rule, ", ".join(bad)))
        return self

    def summary(self):
        return "%-5s %-58s instances=%d ok=%d violations=%d undecided=%d%s" % (
            self.rule, self.title[:58], len(self.instances),
            sum(1 for i in self.instances if i.verdict == "ok"),
            len(self.violations), len(self.undecideds),
            (" controls=%d" % len(self.controls)) if self.controls else "")


def load_known_findings():
    if not os.path.exists(KNOWN_FINDINGS):
        return []
    with open(KNOWN_FINDINGS) as f:
        return json.load(f).get("findings", [])


def known_lookup(known, prop, rule, key):
    """-> entry with status 'known' matching this exact construct, else None.
    'fixed' entries suppress nothing."""
    for e in known:
        if e.get("status") != "known":
            continue
        if e.get("rule") == rule and e.get("key") == key and prop in e.get("properties", []):
            return e
    return None


def write_evidence(prop, tier, seed, results, wall_s, explanation, assumptions, extra=None,
                   n_violations=0, known_printed=None):
    os.makedirs(EVIDENCE_DIR, exist_ok=True)
    instances = sum(len(r.instances) for r in results)
    ok = sum(1 for r in results for i in r.instances if i.verdict == "ok")
    undec = sum(len(r.undecideds) for r in results)
    viol = sum(len(r.violations) for r in results)
    distinct = len({(r.rule, i.key) for r in results for i in r.instances})
    samples = []
    for r in results:
        for i in r.instances[:3]:
            samples.append({"rule": r.rule, **i.as_dict()})
    coverage = {
        "explanation": explanation,
        "evaluations": instances,
        "distinct_nontrivial": distinct,
        "rule": "one evaluation = one rule instance (a construct of /repo's current source the rule was "
                "instantiated on: call site, function, class, table entry, CFG path query); distinct = "
                "distinct (rule, construct key) pairs; instances are enumerated exhaustively from the parsed "
                "package, never sampled",
        "obligations": instances,
        "discharged": ok,
        "undecided": undec,
        "violating": viol,
        "exhaustive": True,
        "samples": samples,
        "rules": [{
            "rule": r.rule, "title": r.title, "floor": r.floor, "instances": len(r.instances),
            "ok": sum(1 for i in r.instances if i.verdict == "ok"),
            "violations": [i.as_dict() for i in r.violations],
            "undecided": [i.as_dict() for i in r.undecideds],
            "notes": r.notes,
            "positive_controls": [{"name": n, "behaved": f} for n, f in r.controls],
        } for r in results],
        "checker_cmd": "./check %s --tier %s" % (prop, tier),
        "trusted_base": ["CPython ast", "engine CFG/MRO/call resolution (sa/)", "frozen tables listed per rule",
                         "NumPy as dtype oracle (never applied to repository data)"],
    }
    if extra:
        coverage.update(extra)
    ev = {
        "property_id": prop,
        "tier": tier,
        "seed": seed,
        "level": "other",
        "coverage": coverage,
        "assumptions": assumptions,
        "wall_s": round(wall_s, 3),
        "violations": n_violations,
        "known_findings_printed": known_printed or [],
    }
    path = os.path.join(EVIDENCE_DIR, "%s.json" % prop)
    tmp = path + ".tmp"
    with open(tmp, "w") as f:
        json.dump(ev, f, indent=1, sort_keys=False)
    os.replace(tmp, path)
    return path


def write_violation(prop, n, rule_result, inst):
    d = os.path.join(EVIDENCE_DIR, "violations")
    os.makedirs(d, exist_ok=True)
    path = os.path.join(d, "%s-%d.json" % (prop, n))
    with open(path, "w") as f:
        json.dump({
            "property": prop, "rule": rule_result.rule, "rule_title": rule_result.title,
            **inst.as_dict(),
        }, f, indent=1)
    return path
