"""Resolved call graph of the package (direct calls, self/cls dispatch through the
MRO and overrides, super(), module functions, constructors, receiver table,
property reads)."""
import ast

from .core import call_name, dotted, walk_body, PKG

# Frozen receiver table: (module or '*', receiver expression) -> class quals.
# One line of justification each (DESIGN.md appendix B).
EXTERNAL = "<external>"
RECEIVERS = {
    ("tdms", "self._reader"): ["reader.TdmsReader"],           # only constructor call site: TdmsFile.__init__
    ("tdms", "tdms_reader"): ["reader.TdmsReader"],
    ("tdms", "self._channel"): ["tdms.TdmsChannel"],           # ChannelDataChunk.__init__ stores its channel argument
    ("*", "segment"): ["tdms_segment.TdmsSegment"],            # only TdmsSegment(...) is appended in read_metadata
    ("*", "previous_segment"): ["tdms_segment.TdmsSegment"],
    ("*", "last_segment"): ["tdms_segment.TdmsSegment"],
    ("tdms_segment", "reader"): ["tdms_segment.ContiguousDataReader", "tdms_segment.InterleavedDataReader",
                                 "daqmx.DaqmxDataReader"],    # the three returns of _get_data_reader
    ("*", "obj"): ["tdms_segment.TdmsSegmentObject", "daqmx.DaqmxSegmentObject"],
    ("*", "o"): ["tdms_segment.TdmsSegmentObject", "daqmx.DaqmxSegmentObject"],
    ("*", "segment_obj"): ["tdms_segment.TdmsSegmentObject", "daqmx.DaqmxSegmentObject"],
    ("*", "segment_object"): ["tdms_segment.TdmsSegmentObject", "daqmx.DaqmxSegmentObject"],
    ("*", "existing_object"): ["tdms_segment.TdmsSegmentObject", "daqmx.DaqmxSegmentObject"],
    ("*", "previous_segment_obj"): ["tdms_segment.TdmsSegmentObject", "daqmx.DaqmxSegmentObject"],
    ("*", "new_obj"): ["tdms_segment.TdmsSegmentObject", "daqmx.DaqmxSegmentObject"],
    ("daqmx", "scaler"): ["daqmx.DaqMxScaler", "daqmx.DigitalLineScaler"],   # constructed only through _scaler_classes
    ("tdms", "channel_scaling"): ["scaling.MultiScaling"],     # get_scaling returns MultiScaling or None
    ("tdms", "scale"): ["scaling.MultiScaling"],
    ("tdms", "channel_data"): ["channel_data.ListDataReceiver", "channel_data.NumpyDataReceiver",
                               "channel_data.DaqmxDataReceiver", "channel_data.TimestampDataReceiver"],
    ("scaling", "self.thermocouple"): ["thermocouples.Thermocouple"],
    ("*", "channel"): ["tdms.TdmsChannel"],                    # constructed only in TdmsFile._read_file
    ("*", "group"): ["tdms.TdmsGroup"],
    ("*", "tdms_file"): ["tdms.TdmsFile"],
    ("writer.TdmsWriter.defragment", "file"): ["tdms.TdmsFile"],   # file = TdmsFile(source, ...)
    # streams and other external objects (method calls on them leave the package)
    ("*", "file"): EXTERNAL, ("*", "f"): EXTERNAL, ("*", "open_file"): EXTERNAL,
    ("*", "self._file"): EXTERNAL, ("*", "self._index_file"): EXTERNAL,
    ("reader", "tdms_file"): EXTERNAL,                           # TdmsReader.__init__: the caller's stream
    ("*", "h5file"): EXTERNAL, ("*", "memmap_file"): EXTERNAL, ("*", "log"): EXTERNAL, ("*", "self._log"): EXTERNAL,
    ("*", "np"): EXTERNAL, ("*", "os"): EXTERNAL, ("*", "os.path"): EXTERNAL, ("*", "struct"): EXTERNAL,
    ("writer", "new_file"): ["writer.TdmsWriter"],
    ("writer", "segment"): ["writer.TdmsSegment"],
}


# builtin container / string / ndarray methods: a call of one of these on a receiver that is
# not in the table leaves the package (no package class defines a method of that name that
# is called through an untyped receiver; checked by the resolution statistics)
EXTERNAL_METHODS = {
    "append", "extend", "items", "keys", "values", "get", "update", "pop", "sort", "encode", "decode",
    "replace", "join", "split", "format", "astype", "view", "reshape", "ravel", "copy", "all", "any",
    "startswith", "endswith", "add", "tofile", "tobytes", "write", "seek", "tell", "readinto", "match",
    "group", "newbyteorder", "setdefault", "insert", "index", "count", "strip", "fill", "item",
}


class Edge:
    __slots__ = ("caller", "callee", "node", "kind")

    def __init__(self, caller, callee, node, kind):
        self.caller, self.callee, self.node, self.kind = caller, callee, node, kind

    def __repr__(self):
        return "<%s -> %s (%s)>" % (self.caller, self.callee, self.kind)


class CallGraph:
    def __init__(self):
        self.out = {}     # caller qual -> [Edge]
        self.inc = {}     # callee qual -> [Edge]
        self.unresolved = []

    def add(self, e):
        self.out.setdefault(e.caller, []).append(e)
        self.inc.setdefault(e.callee, []).append(e)

    def callees(self, qual):
        return self.out.get(qual, [])

    def callers(self, qual):
        return self.inc.get(qual, [])

    def reachable(self, starts, kinds=None, stop=None):
        """Transitive closure over edges. -> dict qual -> parent edge (None for starts)."""
        seen = {s: None for s in starts}
        work = list(starts)
        while work:
            q = work.pop()
            if stop is not None and stop(q) and seen[q] is not None:
                continue
            for e in self.out.get(q, []):
                if kinds is not None and e.kind not in kinds:
                    continue
                if e.callee not in seen:
                    seen[e.callee] = e
                    work.append(e.callee)
        return seen

    def chain(self, seen, qual):
        out = []
        e = seen.get(qual)
        while e is not None:
            out.append("%s -> %s (L%d, %s)" % (e.caller, e.callee, getattr(e.node, "lineno", 0), e.kind))
            e = seen.get(e.caller)
        return list(reversed(out))


def _methods_named(prog, name):
    return [fi for fi in prog.functions.values() if fi.cls is not None and fi.name == name]


def _dispatch(prog, ci, name):
    """Methods `name` may resolve to on an instance whose static class is `ci`
    (the MRO result plus overrides in subclasses)."""
    out = []
    found = prog.lookup(ci, name)
    if found and found[0] == "method":
        out.append(found[2])
    for sub in prog.subclasses(ci):
        if name in sub.methods and sub.methods[name] not in out:
            out.append(sub.methods[name])
    return out


def build_callgraph(prog):
    cg = CallGraph()
    total = resolved = external = byname = 0
    prop_names = {}
    for fi in prog.functions.values():
        if fi.cls is not None and fi.is_property:
            prop_names.setdefault(fi.name, []).append(fi)
    for fi in prog.functions.values():
        mod = fi.module
        local_classes = {}
        # local variable -> class for `x = ClassName(...)` in this function (simple flow-insensitive)
        for n in walk_body(fi.node):
            if isinstance(n, ast.Assign) and isinstance(n.value, ast.Call) and len(n.targets) == 1 \
                    and isinstance(n.targets[0], ast.Name):
                c = prog.resolve_class(mod, n.value.func)
                if c is not None:
                    local_classes.setdefault(n.targets[0].id, []).append(c)
        # local aliases of table receivers:  data_file = self._file
        for n in walk_body(fi.node):
            if isinstance(n, ast.Assign) and len(n.targets) == 1 and isinstance(n.targets[0], ast.Name):
                d = dotted(n.value)
                if d is not None and n.targets[0].id not in local_classes:
                    cls_ = _receiver_classes(prog, fi, d, {})
                    if cls_:
                        local_classes[n.targets[0].id] = cls_
        for n in walk_body(fi.node):
            if isinstance(n, ast.Call):
                total += 1
                targets, kind = _resolve_call(prog, fi, n, local_classes)
                if kind == "external":
                    external += 1
                elif kind in ("byname", "byname-unique"):
                    byname += 1
                    if not targets:
                        cg.unresolved.append((fi.qual, n))
                else:
                    resolved += 1
                for t in targets:
                    cg.add(Edge(fi.qual, t.qual, n, kind))
            elif isinstance(n, ast.Attribute) and isinstance(n.ctx, ast.Load) and n.attr in prop_names:
                recv = dotted(n.value)
                if recv in ("self", "cls") and fi.cls is not None:
                    for t in _dispatch(prog, fi.cls, n.attr):
                        if t.is_property:
                            cg.add(Edge(fi.qual, t.qual, n, "prop"))
                else:
                    classes = _receiver_classes(prog, fi, recv, local_classes)
                    if classes == EXTERNAL:
                        pass
                    elif classes:
                        for c in classes:
                            for t in _dispatch(prog, c, n.attr):
                                if t.is_property:
                                    cg.add(Edge(fi.qual, t.qual, n, "prop"))
                    else:
                        for t in prop_names[n.attr]:
                            cg.add(Edge(fi.qual, t.qual, n, "prop-byname"))
    stats = {"call_sites": total, "resolved": resolved, "external": external, "by_name_union": byname,
             "resolved_share": round((resolved + external) / total, 4) if total else 1.0}
    return cg, stats


_RET_CACHE = {}
_LOCAL_CACHE = {}


def return_classes(prog, func, depth=0):
    """package classes a function may return an instance of: constructor calls in its return expressions, directly, through a
    local assigned from a constructor, through conditional expressions, or through another package function (depth 2)"""
    key = (id(prog), func.qual)
    if key in _RET_CACHE:
        return _RET_CACHE[key]
    _RET_CACHE[key] = []
    out = []

    def classes_of(e, seen_names=()):
        if isinstance(e, ast.IfExp):
            return classes_of(e.body, seen_names) + classes_of(e.orelse, seen_names)
        if isinstance(e, ast.Call):
            c = prog.resolve_class(func.module, e.func) if isinstance(e.func, (ast.Name, ast.Attribute)) else None
            if c is not None:
                return [c]
            if isinstance(e.func, ast.Name):
                # reader_type = ClassA / ClassB ... ; return reader_type(...)
                via = []
                for n in walk_body(func.node):
                    if isinstance(n, ast.Assign) and any(isinstance(t, ast.Name) and t.id == e.func.id for t in n.targets):
                        for v in ([n.value.body, n.value.orelse] if isinstance(n.value, ast.IfExp) else [n.value]):
                            k = prog.resolve_class(func.module, v) if isinstance(v, (ast.Name, ast.Attribute)) else None
                            if k is not None:
                                via.append(k)
                if via:
                    return via
            if depth < 2:
                r = None
                if isinstance(e.func, ast.Attribute) and dotted(e.func.value) in ("self", "cls") and func.cls is not None:
                    found = prog.lookup(func.cls, e.func.attr)
                    r = found[2] if found and found[0] == "method" else None
                elif isinstance(e.func, (ast.Name, ast.Attribute)):
                    rr = prog.resolve_expr(func.module, e.func)
                    r = rr[1] if rr and rr[0] == "func" else None
                if r is not None:
                    return list(return_classes(prog, r, depth + 1))
            return []
        if isinstance(e, ast.Name) and e.id not in seen_names:
            res = []
            for n in walk_body(func.node):
                if isinstance(n, ast.Assign) and any(isinstance(t, ast.Name) and t.id == e.id for t in n.targets):
                    res += classes_of(n.value, seen_names + (e.id,))
            return res
        return []
    for n in walk_body(func.node):
        if isinstance(n, ast.Return) and n.value is not None:
            for c in classes_of(n.value):
                if c not in out:
                    out.append(c)
    _RET_CACHE[key] = out
    return out


_FIELD_CACHE = {}


def field_classes(prog, ci):
    """field -> [class] for fields of ci that only ever receive None or a freshly constructed instance of one package class
    (self.f = K(...) in a method of ci or of its bases)"""
    if ci is None:
        return {}
    key = (id(prog), ci.qual)
    if key in _FIELD_CACHE:
        return _FIELD_CACHE[key]
    vals = {}
    for k in prog.mro(ci):
        for m in k.methods.values():
            for n in walk_body(m.node):
                if isinstance(n, ast.Assign):
                    for t in n.targets:
                        if isinstance(t, ast.Attribute) and dotted(t.value) == "self":
                            vals.setdefault(t.attr, []).append((m, n.value))
                elif isinstance(n, (ast.AugAssign, ast.AnnAssign)) and isinstance(n.target, ast.Attribute) and dotted(n.target.value) == "self":
                    vals.setdefault(n.target.attr, []).append((m, None))
    out = {}
    _FIELD_CACHE[key] = out          # (also guards against recursion through constructor arguments)
    for f, vs in vals.items():
        classes = []
        ok = True
        for m, v in vs:
            if isinstance(v, ast.Constant) and v.value is None:
                continue
            c = prog.resolve_class(m.module, v.func) if isinstance(v, ast.Call) and isinstance(v.func, (ast.Name, ast.Attribute)) else None
            cs = [c] if c is not None else []
            if not cs and isinstance(v, ast.Name) and m.name == "__init__" and v.id in m.params[1:]:
                # self.f = parameter of the constructor: the classes of what the class is constructed with
                cs = _ctor_arg_classes(prog, ci, m, v.id)
            if not cs:
                ok = False
                break
            for c in cs:
                if c not in classes:
                    classes.append(c)
        if ok and len(classes) == 1:
            out[f] = classes
    return out


def _ctor_arg_classes(prog, ci, init, pname):
    """classes of the argument bound to parameter pname at every place the package constructs ci ([] unless all are known)"""
    pos = init.params.index(pname) - 1
    found = []
    for g in prog.functions.values():
        for c in walk_body(g.node):
            if isinstance(c, ast.Call) and isinstance(c.func, (ast.Name, ast.Attribute)) and prog.resolve_class(g.module, c.func) is ci:
                a = c.args[pos] if len(c.args) > pos else next((k.value for k in c.keywords if k.arg == pname), None)
                d = dotted(a) if a is not None else None
                cs = _receiver_classes(prog, g, d, {}) if d else []
                if not cs or cs == EXTERNAL:
                    return []
                for k in cs:
                    if k not in found:
                        found.append(k)
    return found


def inferred_local_classes(prog, fi):
    """local name -> classes, from assignments  x = Cls(...)  /  x = f(...)  where f returns instances of package classes, and
    x = self.f for a field that only holds instances of one package class"""
    key = (id(prog), fi.qual)
    if key in _LOCAL_CACHE:
        return _LOCAL_CACHE[key]
    out = {}
    for n in walk_body(fi.node):
        if isinstance(n, ast.Assign) and isinstance(n.value, ast.Attribute) and dotted(n.value.value) == "self" and len(n.targets) == 1 \
                and isinstance(n.targets[0], ast.Name) and fi.cls is not None:
            for k in field_classes(prog, fi.cls).get(n.value.attr, []):
                if k not in out.setdefault(n.targets[0].id, []):
                    out[n.targets[0].id].append(k)
        if isinstance(n, ast.Assign) and isinstance(n.value, ast.Call) and len(n.targets) == 1 and isinstance(n.targets[0], ast.Name):
            c = prog.resolve_class(fi.module, n.value.func) if isinstance(n.value.func, (ast.Name, ast.Attribute)) else None
            cls_ = [c] if c is not None else []
            if not cls_:
                f = n.value.func
                r = None
                if isinstance(f, ast.Attribute) and dotted(f.value) in ("self", "cls") and fi.cls is not None:
                    found = prog.lookup(fi.cls, f.attr)
                    r = found[2] if found and found[0] == "method" else None
                elif isinstance(f, (ast.Name, ast.Attribute)):
                    rr = prog.resolve_expr(fi.module, f)
                    r = rr[1] if rr and rr[0] == "func" else None
                if r is not None:
                    cls_ = list(return_classes(prog, r))
            for k in cls_:
                if k not in out.setdefault(n.targets[0].id, []):
                    out[n.targets[0].id].append(k)
    _LOCAL_CACHE[key] = out
    return out


def _receiver_classes(prog, fi, recv, local_classes):
    if recv is None:
        return []
    if recv in local_classes:
        return local_classes[recv]
    inferred = inferred_local_classes(prog, fi)
    if recv in inferred:
        return inferred[recv]
    if recv.startswith("self.") and recv.count(".") == 1 and fi.cls is not None:
        fc = field_classes(prog, fi.cls).get(recv[5:])
        if fc:
            return fc
    for key in ((fi.qual, recv), (fi.module.name, recv), ("*", recv)):
        if key in RECEIVERS:
            if RECEIVERS[key] == EXTERNAL:
                return EXTERNAL
            out_ = []
            for q in RECEIVERS[key]:
                try:
                    out_.append(prog.cls(q))        # follows a class that moved to another module
                except Exception:
                    pass
            return out_
    return []


def _resolve_call(prog, fi, call, local_classes):
    mod = fi.module
    f = call.func
    if isinstance(f, ast.Name):
        r = prog.resolve_name(mod, f.id)
        if r is None:
            return [], "external"          # builtin or local callable
        if r[0] == "func":
            return [r[1]], "direct"
        if r[0] == "class":
            init = prog.lookup(r[1], "__init__")
            new = prog.lookup(r[1], "__new__")
            out = [x[2] for x in (init, new) if x and x[0] == "method"]
            return out, "ctor"
        if r[0] == "const":
            # alias of an external callable, e.g. _struct_unpack = struct.unpack
            return [], "external"
        return [], "external"
    if isinstance(f, ast.Attribute):
        name = f.attr
        base = f.value
        # super().m / super(X, self).m
        if isinstance(base, ast.Call) and call_name(base) == "super" and fi.cls is not None:
            mro = prog.mro(fi.cls)[1:]
            for c in mro:
                if name in c.methods:
                    return [c.methods[name]], "super"
            return [], "external"
        if isinstance(base, ast.Call) and isinstance(base.func, (ast.Name, ast.Attribute)):
            # method of an object constructed on the spot:  Cls(args).method(...)
            k = prog.resolve_class(mod, base.func)
            if k is not None:
                t = _dispatch(prog, k, name)
                if t:
                    return t, "receiver"
        recv = dotted(base)
        if recv in ("self", "cls") and fi.cls is not None:
            t = _dispatch(prog, fi.cls, name)
            if t:
                return t, "self"
            return [], "external" if not _methods_named(prog, name) else "byname"
        if recv is not None:
            r = prog.resolve_expr(mod, base)
            if r is not None:
                if r[0] == "module":
                    rr = prog.resolve_name(r[1], name)
                    if rr and rr[0] == "func":
                        return [rr[1]], "direct"
                    if rr and rr[0] == "class":
                        init = prog.lookup(rr[1], "__init__")
                        return ([init[2]] if init and init[0] == "method" else []), "ctor"
                    return [], "external"
                if r[0] == "class":
                    found = prog.lookup(r[1], name)
                    if found and found[0] == "method":
                        # static/class method call on the class: include overrides for classmethods
                        return [found[2]], "direct"
                    return [], "external"
                if r[0] == "ext":
                    return [], "external"
            classes = _receiver_classes(prog, fi, recv, local_classes)
            if classes == EXTERNAL:
                return [], "external"
            if classes:
                out = []
                for c in classes:
                    for t in _dispatch(prog, c, name):
                        if t not in out:
                            out.append(t)
                if out:
                    return out, "receiver"
        # unknown receiver: union of same-named methods (may-edges)
        if name in EXTERNAL_METHODS:
            return [], "external"
        cands = [m for m in _methods_named(prog, name) if not m.is_static]
        # same name is not enough when the call cannot be a call of that method: too many arguments, or a keyword it does not have
        if not any(isinstance(a, ast.Starred) for a in call.args) and not any(k.arg is None for k in call.keywords):
            def fits(m):
                a = m.node.args
                if a.vararg is not None or a.kwarg is not None:
                    return True
                ps = [x.arg for x in a.args][1:] if not m.is_static else [x.arg for x in a.args]     # without self / cls
                names = set(ps) | {x.arg for x in a.kwonlyargs}
                required = len(ps) - len(a.defaults)
                given = len(call.args) + len([k for k in call.keywords if k.arg in ps])
                return len(call.args) <= len(ps) and all(k.arg in names for k in call.keywords) and given >= required
            fitting = [m for m in cands if fits(m)]
            if fitting:
                cands = fitting
        if len(cands) == 1:
            return cands, "byname-unique"
        if cands:
            return cands, "byname"
        return [], "external"
    return [], "external"
