"""CLI:  python -m sa <Cxx> [--tier quick|thorough] [--explain PATH] | --all | --list"""
import json
import os
import sys
import time
import traceback


def main(argv):
    t0 = time.time()
    from . import report
    from .core import AnalysisError
    args = list(argv)
    tier = os.environ.get("VERIF_TIER", "quick")
    if "--tier" in args:
        i = args.index("--tier")
        tier = args[i + 1]
        del args[i:i + 2]
    if tier not in ("quick", "thorough"):
        tier = "quick"
    try:
        seed = int(os.environ.get("VERIF_SEED", "0"))
    except ValueError:
        seed = 0
    if "--explain" in args:
        i = args.index("--explain")
        with open(args[i + 1]) as f:
            d = json.load(f)
        print("property %s  rule %s (%s)" % (d["property"], d["rule"], d["rule_title"]))
        print("construct: %s" % d["key"])
        print("where:     %s" % d["where"])
        print("detail:    %s" % d["detail"])
        for step in d.get("path", []):
            print("   path: %s" % step)
        return 0
    if "--replay" in args:
        # a static finding is "replayed" by re-running the property's check on the current tree
        i = args.index("--replay")
        del args[i:i + 2]
    from . import props
    if "--list" in args:
        for pid, spec in sorted(props.PROPERTIES.items()):
            print(pid, " ".join(spec["rules"]))
        return 0
    if not args:
        print("usage: check <Cxx> [--tier quick|thorough]", file=sys.stderr)
        return 2
    pid = args[0]
    if pid == "--selftest":
        from . import selftest
        return selftest.main(args[1:])
    if pid not in props.PROPERTIES:
        print("ANALYSIS-ERROR property=%s not claimed by this framework (see MANIFEST not_applicable)" % pid)
        return 2
    try:
        return props.run_property(pid, tier, seed, t0)
    except AnalysisError as e:
        print("ANALYSIS-ERROR property=%s %s: %s" % (pid, type(e).__name__, e))
        return 2
    except Exception:  # a traceback must never masquerade as a violation
        traceback.print_exc()
        print("ANALYSIS-ERROR property=%s internal error (see traceback above)" % pid)
        return 2


if __name__ == "__main__":
    code = main(sys.argv[1:])
    sys.stdout.flush()
    sys.stderr.flush()
    os._exit(code)
