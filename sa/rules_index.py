"""C09: MP2 (tag check before every segment data read), TM1 (ToC mask little-endian), CO1 (coordinate
spaces of seeks, next lead-in reached on every iteration), DF1 (index flag passed explicitly), MP4
(index-only guard), NC1 (None-check contradiction).  C10: KC1 (defragment call-site constants and roles)."""
import ast

from .registry import rule
from .core import call_name, dotted, walk_shallow, walk_body, unparse, AnchorMissing
from .cfg import node_calls, CFG
from .absval import assume_from, eval_test, NONE, NOTNONE
from .rules_layout import UNPACK_NAMES, _format_parts
from .rules_flow import _names, dep_closure


def _stream_aliases(fi, field="self._file"):
    out = {field}
    for n in walk_body(fi.node):
        if isinstance(n, ast.Assign) and dotted(n.value) in out:
            for t in n.targets:
                if isinstance(t, ast.Name):
                    out.add(t.id)
    return out


@rule("MP2", "every segment data read is preceded, in the same iteration, by the segment start (tag) check", floor=4)
def mp2(ctx, R):
    from .sym import Sym, show, alpha
    from .region import nodes_reaching
    prog = ctx.prog
    cls = prog.cls("reader.TdmsReader")
    n = 0
    for name, fi in sorted(cls.methods.items()):
        cfg = None
        aliases = _stream_aliases(fi)
        for c in walk_body(fi.node):
            if isinstance(c, ast.Call) and isinstance(c.func, ast.Attribute) and c.func.attr in ("read_raw_data", "read_raw_data_for_channel") \
                    and c.args and dotted(c.args[0]) in aliases:
                n += 1
                seg = dotted(c.func.value)
                cfg = cfg or ctx.cfg(fi)
                cn = cfg.where(lambda x: any(y is c for y in node_calls(x)))
                verify = nodes_reaching(ctx, fi, cfg, {"reader.TdmsReader._verify_segment_start"})
                chk = lambda x, seg=seg: x in verify and any(seg in [dotted(a) for a in y.args] for y in node_calls(x))
                ok = True
                for node in cn:
                    heads = cfg.where(lambda x: x.kind == "for" and seg in _names(x.ast.target))
                    starts = [m for h in heads for m, k in h.succ if k == "loop"] or [cfg.entry]
                    starts = [m for m in starts if not chk(m)]
                    r = cfg.reach(starts, avoid=chk, follow_exc=False) if starts else set()
                    if node in r and not chk(node):
                        ok = False
                R.check(ok, "reader.TdmsReader.%s::%s.%s" % (name, seg, c.func.attr), fi.where(c),
                        "dominated by the segment start check of %s in the same iteration" % seg,
                        "data of a segment is read without first checking that the data file has a TDSm tag at the segment's position: a "
                        "stale or mismatching index file would be read as data")
    if n < 3:
        raise AnchorMissing("segment data reads in reader.TdmsReader (found %d)" % n)
    vs = prog.func("reader.TdmsReader._verify_segment_start")
    sy = Sym(prog, vs, vs.cls)
    seg = ("param", vs.params[1])
    al = _stream_aliases(vs)
    seeks = [c for c in walk_body(vs.node) if isinstance(c, ast.Call) and isinstance(c.func, ast.Attribute) and c.func.attr == "seek" and dotted(c.func.value) in al]
    ok = False
    if seeks:
        env, _g = sy.env_at(seeks[0])
        tgt = sy.expr(seeks[0].args[0], env) if seeks[0].args else None
        whence_ok = len(seeks[0].args) == 1 or (len(seeks[0].args) == 2 and (dotted(seeks[0].args[1]) == "os.SEEK_SET" or prog.try_fold(seeks[0].args[1]) == 0))
        ok = tgt == ("attr", seg, "position") and whence_ok
    R.check(ok, "reader.TdmsReader._verify_segment_start::seek", vs.where(), "absolute seek of the data stream to segment.position",
            "the check does not seek the data file to the segment's position")
    reads = [c for c in walk_body(vs.node) if isinstance(c, ast.Call) and isinstance(c.func, ast.Attribute) and c.func.attr == "read" and dotted(c.func.value) in al]
    nbytes = None
    if reads:
        env, _g = sy.env_at(reads[0])
        v = sy.expr(reads[0].args[0], env) if reads[0].args else None
        if v and v[0] == "const":
            nbytes = v[1]
        elif v and v[0] == "len" and v[1][0] == "const" and isinstance(v[1][1], bytes):
            nbytes = len(v[1][1])
    R.check(len(reads) == 1 and nbytes == 4, "reader.TdmsReader._verify_segment_start::reads the 4-byte tag", vs.where(), "one 4-byte read per segment touched",
            "the segment start check reads %s bytes in %d read(s)" % (nbytes, len(reads)))
    # the comparison with b'TDSm' decides between returning and raising
    cfg = ctx.cfg(vs)
    good = False
    for t in cfg.where(lambda x: x.kind == "test"):
        env, _g = sy.env_at(t.ast)
        c = sy.expr(t.ast, env)
        if c and c[0] == "cmp" and c[1] in ("!=", "==") and ("const", b"TDSm") in (c[2], c[3]) and any(
                isinstance(o, tuple) and o and o[0] == "method" and o[1] == "read" for o in (c[2], c[3])):
            mismatch = "true" if c[1] == "!=" else "false"
            succ = [m for m, k in t.succ if k == mismatch]
            r = cfg.reach(succ, follow_exc=True)
            raises_only = cfg.exit not in r and all(m is not cfg.exit for m in succ) and (cfg.raise_exit in r or any(m.kind == "raisestmt" for m in succ))
            match = [m for m, k in t.succ if k == ("false" if mismatch == "true" else "true")]
            r2 = cfg.reach(match, follow_exc=False)
            returns = cfg.exit in r2 or any(m is cfg.exit for m in match)
            good = raises_only and returns
    R.check(good, "reader.TdmsReader._verify_segment_start::tag", vs.where(), "raises unless the 4 bytes are b'TDSm'",
            "the data-file tag check changed: no comparison of the bytes read with b'TDSm' that raises on mismatch and returns on match")


@rule("TM1", "the ToC mask is parsed little-endian wherever a lead-in is examined", floor=1)
def tm1(ctx, R):
    prog = ctx.prog
    n = 0
    for fi in sorted(prog.functions.values(), key=lambda f: f.qual):
        if fi.module.name not in ("reader", "tdms_segment"):
            continue
        for a in walk_body(fi.node):
            if not isinstance(a, ast.Assign):
                continue
            calls = [c for c in ast.walk(a.value) if isinstance(c, ast.Call) and call_name(c) in UNPACK_NAMES]
            if not calls:
                continue
            names = set()
            for t in a.targets:
                names |= _names(t)
            is_toc = any("toc" in nm.lower() for nm in names)
            if not is_toc:
                # compared with / stored as a toc_mask later?
                for x in walk_body(fi.node):
                    if isinstance(x, ast.Compare) and (names & _names(x)) and "toc_mask" in unparse(x):
                        is_toc = True
            if not is_toc:
                continue
            n += 1
            pre, body = _format_parts(calls[0].args[0], fi)
            lit = body if pre is None else (pre.value if isinstance(pre, ast.Constant) else None)
            fmt_txt = unparse(calls[0].args[0])
            good = (pre is None and isinstance(body, str) and body.startswith("<")) or (isinstance(pre, ast.Constant) and pre.value == "<")
            R.check(good, "%s::toc mask unpack" % fi.qual, fi.where(a), "format %s (little-endian by specification)" % fmt_txt,
                    "the ToC mask is unpacked with `%s`: the mask holds the byte-order flag itself and is always little-endian; for big-endian "
                    "segments this value is wrong" % fmt_txt)
    if n < 1:
        raise AnchorMissing("ToC mask unpack sites")


# coordinate spaces
SPACE_D = {"segment.position", "segment.data_position", "segment.next_segment_pos", "segment_position", "self._data_file_size", "next_segment_pos", "data_position"}
SPACE_I = {"start_position"}


def _vec(e):
    """(coefficient of index-stream offsets, coefficient of data-file offsets) or None"""
    d = dotted(e)
    if d in SPACE_D:
        return (0, 1)
    if d in SPACE_I:
        return (1, 0)
    if isinstance(e, ast.Constant) and isinstance(e.value, int):
        return (0, 0)
    if isinstance(e, ast.BinOp) and isinstance(e.op, (ast.Add, ast.Sub)):
        a, b = _vec(e.left), _vec(e.right)
        if a is None or b is None:
            return None
        sgn = 1 if isinstance(e.op, ast.Add) else -1
        return (a[0] + sgn * b[0], a[1] + sgn * b[1])
    return None


def _space(e):
    """'D' data-file offset, 'I' offset in the stream being parsed, 'L' length, 'X' ill-typed, None unknown"""
    v = _vec(e)
    if v is None:
        return None
    return {(1, 0): "I", (0, 1): "D", (0, 0): "L"}.get(v, "X")


@rule("CO1", "while parsing the index stream every seek target is an index-stream offset; the next lead-in is reached in every iteration", floor=4)
def co1(ctx, R):
    prog = ctx.prog
    fi = prog.func("reader.TdmsReader.read_metadata")
    cfg = ctx.cfg(fi)
    # start_position is file.tell() in the loop
    sp = [n for n in walk_body(fi.node) if isinstance(n, ast.Assign) and dotted(n.targets[0]) == "start_position"]
    R.check(bool(sp) and unparse(sp[0].value) == "file.tell()", "reader.TdmsReader.read_metadata::start_position", fi.where(),
            "start of the lead-in in the stream being parsed", "start_position is no longer file.tell() at the start of the lead-in")
    from .rules_resource import _controlling_tests
    seeks = cfg.where(lambda n: any(call_name(c) == "file.seek" for c in node_calls(n)))
    if len(seeks) < 2:
        # maybe one unconditional seek with a conditional target
        pass
    for s in seeks:
        c = [c for c in node_calls(s) if call_name(c) == "file.seek"][0]
        tests = _controlling_tests(cfg, s)
        on_index = any(unparse(t.ast) == "reading_index_file" for t in tests)
        # false branch of the same test?
        on_data = not on_index and any(unparse(t.ast) == "reading_index_file" for t in cfg.where(lambda n: n.kind == "test"))
        sp_ = _space(c.args[0])
        whence_ok = len(c.args) == 1 or dotted(c.args[1]) in ("os.SEEK_SET",) or (isinstance(c.args[1], ast.Constant) and c.args[1].value == 0)
        key = "reader.TdmsReader.read_metadata::seek(%s)" % unparse(c.args[0])[:60]
        if not whence_ok:
            R.violation(key, fi.where(c), "relative seek between segments")
            continue
        if on_index:
            if sp_ == "I":
                R.ok(key, fi.where(c), "index branch: index-stream offset (lead-in start + metadata length)")
            elif sp_ in ("D", "X"):
                R.violation(key, fi.where(c), "while reading from the index file the stream is positioned at `%s`, an offset in the DATA file: "
                            "index and data offsets differ by the raw data of all earlier segments" % unparse(c.args[0]))
            else:
                R.undecided(key, fi.where(c), "coordinate space of the seek target not understood")
        else:
            if sp_ == "D":
                R.ok(key, fi.where(c), "data-file branch: data-file offset of the next segment")
            elif sp_ in ("I", "X"):
                R.violation(key, fi.where(c), "the data file is positioned at `%s`, which is not a data-file offset" % unparse(c.args[0]))
            else:
                R.undecided(key, fi.where(c), "coordinate space of the seek target not understood")
    # MS1: from the append of a parsed segment every path back to the loop head passes an absolute seek of the stream
    app = cfg.where(lambda n: any(call_name(c) == "self._segments.append" for c in node_calls(n)))
    heads = cfg.where(lambda n: n.kind == "test" and n.label == "while")
    if not app or not heads:
        raise AnchorMissing("reader.TdmsReader.read_metadata: segment loop")
    through = lambda n: any(call_name(c) == "file.seek" for c in node_calls(n))
    r = cfg.reach(app, avoid=through, follow_exc=False)
    R.check(not any(h in r for h in heads), "reader.TdmsReader.read_metadata::next lead-in reached on every iteration", fi.where(app[0].ast),
            "every iteration ends with a seek to the next lead-in", "on some path the loop continues without positioning the stream at the next "
            "lead-in (e.g. only for segments that have metadata): the next 28 bytes parsed are not a lead-in",
            )
    # segment_position handed to the lead-in parser is the data-file position of the next segment
    spd = [n for n in walk_body(fi.node) if isinstance(n, ast.Assign) and dotted(n.targets[0]) == "segment_position" and not isinstance(n.value, ast.Constant)]
    R.check(bool(spd) and all(_space(n.value) == "D" for n in spd), "reader.TdmsReader.read_metadata::segment_position", fi.where(),
            "segment positions are data-file offsets in both modes", "segment_position is updated from `%s`" % (unparse(spd[0].value) if spd else None))
    li = prog.func("reader.TdmsReader._read_lead_in")
    cmps = [x for x in walk_body(li.node) if isinstance(x, ast.Compare) and "_data_file_size" in unparse(x) and not isinstance(x.ops[0], (ast.Is, ast.IsNot))]
    for x in cmps:
        others = [o for o in [x.left] + list(x.comparators) if "_data_file_size" not in unparse(o)]
        R.check(all(_space(o) in ("D",) for o in others), "reader.TdmsReader._read_lead_in::clamp `%s`" % unparse(x)[:50], li.where(x),
                "segment end (data-file offset) is clamped against the data file's size", "the data file size is compared with `%s`, which is not a "
                "data-file offset" % ", ".join(unparse(o) for o in others))
    gfs = [n for n in walk_body(prog.func("reader.TdmsReader.__init__").node) if isinstance(n, ast.Assign) and dotted(n.targets[0]) == "self._data_file_size"]
    ok = all((isinstance(n.value, ast.Constant) and n.value.value is None) or (isinstance(n.value, ast.Call) and n.value.args and dotted(n.value.args[0]) == "self._file") for n in gfs)
    R.check(bool(gfs) and ok, "reader.TdmsReader.__init__::_data_file_size from the data file", prog.func("reader.TdmsReader.__init__").where(),
            "size is taken from the data stream only", "the size used for clamping is taken from another stream than the data file")


@rule("DF1", "index-vs-data mode is passed explicitly to the lead-in parser and selects the expected tag", floor=3)
def df1(ctx, R):
    prog = ctx.prog
    li = prog.func("reader.TdmsReader._read_lead_in")
    rsm = prog.func("reader.TdmsReader._read_segment_metadata")
    rm = prog.func("reader.TdmsReader.read_metadata")
    flag = [p for p in li.params if "index" in p]
    if not flag:
        raise AnchorMissing("reader.TdmsReader._read_lead_in: is_index_file parameter")
    flag = flag[0]
    calls = [c for c in walk_body(rsm.node) if isinstance(c, ast.Call) and call_name(c) == "self._read_lead_in"]
    pos = li.params.index(flag) - 1
    for c in calls:
        arg = c.args[pos] if len(c.args) > pos else next((k.value for k in c.keywords if k.arg == flag), None)
        R.check(arg is not None and isinstance(arg, ast.Name) and arg.id in rsm.params, "reader.TdmsReader._read_segment_metadata::%s passed" % flag, rsm.where(c),
                "mode flag forwarded", "_read_lead_in is called without the index/data mode flag (default: data file): index files would be rejected or "
                "data files accepted with the wrong tag")
    calls = [c for c in walk_body(rm.node) if isinstance(c, ast.Call) and call_name(c) == "self._read_segment_metadata"]
    rp = [p for p in rsm.params if "index_file" in p]
    for c in calls:
        pos2 = rsm.params.index(rp[0]) - 1 if rp else None
        arg = c.args[pos2] if pos2 is not None and len(c.args) > pos2 else None
        R.check(arg is not None and dotted(arg) == "reading_index_file", "reader.TdmsReader.read_metadata::mode flag", rm.where(c),
                "reading_index_file forwarded", "read_metadata does not forward which stream it is parsing")
    tags = [x for x in walk_body(li.node) if isinstance(x, ast.IfExp) and dotted(x.test) == flag]
    ok = bool(tags) and prog.try_fold(tags[0].body) == b"TDSh" and prog.try_fold(tags[0].orelse) == b"TDSm"
    R.check(ok, "reader.TdmsReader._read_lead_in::expected tag", li.where(), "TDSh for the index stream, TDSm for the data stream",
            "expected tag is not selected by the mode flag")
    # reading_index_file is True exactly on the branch that selected self._index_file
    ok = False
    for n in rm.node.body:
        if isinstance(n, ast.If) and "self._index_file is not None" in unparse(n.test):
            body = " ".join(unparse(s) for s in n.body)
            ok = "file = self._index_file" in body and "reading_index_file = True" in body
            if n.orelse and isinstance(n.orelse[0], ast.If):
                b2 = " ".join(unparse(s) for s in n.orelse[0].body)
                ok = ok and "file = self._file" in b2 and "reading_index_file = False" in b2
    R.check(ok, "reader.TdmsReader.read_metadata::stream selection", rm.where(), "index stream preferred; flag set together with the stream",
            "the mode flag is not set together with the stream it describes")


def _last_store_values(cfg, attr, assume):
    """Constant values of the last store to self.<attr> on each acyclic path from entry to the normal exit."""
    results = set()
    seen_paths = [0]

    def walk(node, last, visited):
        seen_paths[0] += 1
        if seen_paths[0] > 20000:
            return
        if node is cfg.exit:
            results.add(last)
            return
        if node.id in visited:
            return
        visited = visited | {node.id}
        if node.kind == "stmt" and isinstance(node.ast, ast.Assign):
            for t in node.ast.targets:
                if isinstance(t, ast.Attribute) and dotted(t.value) == "self" and t.attr == attr:
                    v = node.ast.value
                    last = v.value if isinstance(v, ast.Constant) else ("expr", unparse(v))
        known = assume(node) if node.kind == "test" else None
        for m, k in node.succ:
            if k in ("exc", "uncaught"):
                continue
            if known is True and k == "false":
                continue
            if known is False and k == "true":
                continue
            walk(m, last, visited)
    walk(cfg.entry, "<unset>", frozenset())
    return results


@rule("MP4", "no data is ever returned when only an index file is open", floor=4)
def mp4(ctx, R):
    prog = ctx.prog
    iio = prog.func("reader.TdmsReader.is_index_file_only")
    rets = [n for n in walk_body(iio.node) if isinstance(n, ast.Return) and n.value is not None]
    if not rets:
        raise AnchorMissing("reader.TdmsReader.is_index_file_only: return")
    init = prog.func("reader.TdmsReader.__init__")
    scen = {
        "stream holding an index (TDSh)": ({"hasattr": True, "TDSh": True, "TDSm": False}, True),
        "stream holding data (TDSm)": ({"hasattr": True, "TDSh": False, "TDSm": True}, False),
        "path of a .tdms_index file": ({"hasattr": False, "endswith": True}, True),
        "path of a .tdms file without index": ({"hasattr": False, "endswith": False, "isfile": False}, False),
        "path of a .tdms file with an index beside it": ({"hasattr": False, "endswith": False, "isfile": True}, False),
    }
    icfg = CFG(init.node, may_raise=lambda n: n.kind == "raisestmt")
    for name, (ans, want) in scen.items():
        def assume(node, ans=ans):
            t = unparse(node.ast)
            if "hasattr(" in t:
                return ans["hasattr"]
            if "TDSh" in t and "==" in t:
                return ans.get("TDSh")
            if "TDSm" in t and "==" in t:
                return ans.get("TDSm")
            if "endswith" in t:
                return ans.get("endswith")
            if "isfile" in t:
                return ans.get("isfile")
            return None
        # facts after construction
        facts = {}
        for attr in ("_file", "_index_file"):
            vals = _last_store_values(icfg, attr, assume)
            nullness = {NONE if v is None else NOTNONE for v in vals if v != "<unset>"}
            if len(nullness) == 1:
                facts["self." + attr] = nullness.pop()
        # boolean flag attributes referenced by the predicate
        for x in ast.walk(rets[0].value):
            if isinstance(x, ast.Attribute) and dotted(x.value) == "self" and ("self." + x.attr) not in facts:
                vals = _last_store_values(icfg, x.attr, assume)
                consts = {v for v in vals if isinstance(v, bool)}
                if len(vals) == 1 and len(consts) == 1:
                    facts["self." + x.attr] = consts.pop()
        # in the .tdms path scenario _index_file may or may not be set; _file is set
        got = eval_test(rets[0].value, facts)
        key = "reader.TdmsReader.is_index_file_only::%s" % name
        if got is None:
            R.undecided(key, iio.where(), "predicate `%s` not decidable from the constructor's stores (%s)" % (unparse(rets[0].value), facts))
        else:
            R.check(got == want, key, iio.where(), "evaluates to %s" % got,
                    "for a %s the constructor leaves %s and is_index_file_only() evaluates to %s (expected %s): %s" % (
                        name, facts, got, want, "data reads are not refused / reading is not forced to metadata only" if want else "a data file is treated as index-only"))
    fi = prog.func("tdms.TdmsFile.__init__")
    call = [c for c in walk_body(fi.node) if isinstance(c, ast.Call) and call_name(c) == "self._read_file"]
    ok = bool(call) and len(call[0].args) >= 2 and isinstance(call[0].args[1], ast.IfExp) and "is_index_file_only()" in unparse(call[0].args[1].test) \
        and prog.try_fold(call[0].args[1].orelse) is True
    R.check(ok, "tdms.TdmsFile.__init__::metadata only when index only", fi.where(), "index-only input forces read_metadata_only",
            "an index-only input is not forced to metadata-only reading")
    rc = prog.func("tdms.TdmsChannel._read_channel_data")
    cfg = ctx.cfg(rc)
    guard = cfg.where(lambda n: n.kind == "test" and "is_index_file_only()" in unparse(n.ast))
    reads = cfg.where(lambda n: any((call_name(c) or "").startswith("self._reader.read") for c in node_calls(n)))
    ok = bool(guard) and all(cfg.dominated_by(r, lambda n: n in guard)[0] for r in reads) and any(
        m.kind == "raisestmt" for g in guard for m, k in g.succ if k == "true")
    R.check(ok and reads, "tdms.TdmsChannel._read_channel_data::refuses index-only", rc.where(), "raises before any data is read when only the index is open",
            "lazy channel reads are not refused for index-only files")


@rule("NC1", "a field that can be None is not used in arithmetic or ordering without a None test on that path", floor=1)
def nc1(ctx, R):
    prog = ctx.prog
    cls = prog.cls("reader.TdmsReader")
    init = prog.func("reader.TdmsReader.__init__")
    nullable = set()
    for n in walk_body(init.node):
        if isinstance(n, ast.Assign) and isinstance(n.value, ast.Constant) and n.value.value is None:
            for t in n.targets:
                if isinstance(t, ast.Attribute) and dotted(t.value) == "self":
                    nullable.add(t.attr)
    targets = [a for a in nullable if a in ("_data_file_size",)]
    if not targets:
        R.note("no nullable size field any more")
        R.ok("reader.TdmsReader::no nullable size field", init.where(), "nothing to check")
        return
    for attr in targets:
        full = "self." + attr
        for name, fi in sorted(cls.methods.items()):
            if name == "__init__":
                continue
            uses = [x for x in walk_body(fi.node) if isinstance(x, ast.Attribute) and dotted(x) == full and isinstance(x.ctx, ast.Load)]
            if not uses:
                continue
            cfg = ctx.cfg(fi)
            guard = lambda n: n.kind == "test" and (full + " is not None") in unparse(n.ast)
            # direct ordering / arithmetic uses
            for node in cfg.where(lambda n: n.ast is not None and n.kind in ("stmt", "test", "return")):
                a = node.ast
                for x in walk_shallow(a):
                    direct = None
                    if isinstance(x, ast.Compare) and not isinstance(x.ops[0], (ast.Is, ast.IsNot, ast.Eq, ast.NotEq)) and full in unparse(x):
                        direct = x
                    if isinstance(x, ast.BinOp) and full in unparse(x):
                        direct = x
                    if direct is None:
                        continue
                    # guarded within the same boolean expression?
                    same_expr_guard = isinstance(a, ast.BoolOp) and (full + " is not None") in unparse(a) or (
                        node.kind == "test" and (full + " is not None") in unparse(a))
                    ok, _ = cfg.dominated_by(node, guard)
                    R.check(ok or same_expr_guard, "reader.TdmsReader.%s::%s in `%s`" % (name, attr, unparse(direct)[:40]), fi.where(node.ast),
                            "guarded by an `is not None` test", "%s may be None here (only an index file is open) and is used in `%s`" % (full, unparse(direct)))
            # indirect: local assigned from the field, later ordered/added
            for d in cfg.where(lambda n: n.kind == "stmt" and isinstance(n.ast, ast.Assign) and dotted(n.ast.value) == full and isinstance(n.ast.targets[0], ast.Name)):
                lv = d.ast.targets[0].id
                okd, _ = cfg.dominated_by(d, guard)
                if okd:
                    continue
                redefs = lambda n: n is not d and n.kind == "stmt" and isinstance(n.ast, ast.Assign) and any(isinstance(t, ast.Name) and t.id == lv for t in n.ast.targets)
                lguard = lambda n: n.kind == "test" and ("%s is not None" % lv) in unparse(n.ast)
                r = cfg.reach([d], avoid=lambda n: redefs(n) or lguard(n), follow_exc=False)
                bad = None
                for node in sorted(r, key=lambda n: n.lineno):
                    if node is d or node.ast is None:
                        continue
                    tgt = node.ast if node.kind != "for" else node.ast.iter
                    for x in walk_shallow(tgt):
                        if isinstance(x, ast.Compare) and not isinstance(x.ops[0], (ast.Is, ast.IsNot, ast.Eq, ast.NotEq)) and lv in _names(x):
                            bad = (node, x)
                        if isinstance(x, ast.BinOp) and lv in _names(x) and not isinstance(x.op, ast.Mod):
                            bad = bad or (node, x)
                    if bad:
                        break
                key = "reader.TdmsReader.%s::%s via %s" % (name, attr, lv)
                if bad:
                    R.violation(key, fi.where(bad[0].ast), "`%s = %s` takes the value None when only an index file is open (elsewhere in this function the field "
                                "is tested with `is not None`), and `%s` then orders/adds it: opening a .tdms_index alone whose last lead-in carries the "
                                "'length unknown' marker raises TypeError instead of giving the metadata" % (lv, full, unparse(bad[1])),
                                path=cfg.describe_path(cfg.path_to(bad[0])))
                else:
                    R.ok(key, fi.where(d.ast), "value is not ordered or added before being re-tested")


@rule("KC1", "defragment copies every object with raw data, raw timestamps and its own name/properties", floor=9)
def kc1(ctx, R):
    prog = ctx.prog
    fi = prog.func("writer.TdmsWriter.defragment")
    cfg = ctx.cfg(fi)
    src = [c for c in walk_body(fi.node) if isinstance(c, ast.Call) and call_name(c) in ("TdmsFile", "TdmsFile.read")]
    if not src:
        raise AnchorMissing("writer.TdmsWriter.defragment: source TdmsFile(...)")
    kw = {k.arg: k.value for k in src[0].keywords}
    R.check(prog.try_fold(kw.get("raw_timestamps")) is True, "writer.TdmsWriter.defragment::raw_timestamps=True", fi.where(src[0]),
            "source is read with raw timestamps (full precision)", "the source is read without raw_timestamps=True: timestamps are copied at microsecond precision")
    R.check(prog.try_fold(kw.get("read_metadata_only")) is not True and call_name(src[0]) != "TdmsFile.read_metadata" and "keep_open" not in kw,
            "writer.TdmsWriter.defragment::reads data", fi.where(src[0]), "source data is read", "the source is opened without data")
    srcvar = None
    for n in walk_body(fi.node):
        if isinstance(n, ast.Assign) and n.value is src[0] and isinstance(n.targets[0], ast.Name):
            srcvar = n.targets[0].id
    dest = [c for c in walk_body(fi.node) if isinstance(c, ast.Call) and dotted(c.func) in ("cls", "TdmsWriter")]
    if not dest:
        raise AnchorMissing("writer.TdmsWriter.defragment: destination writer")
    dkw = {k.arg: unparse(k.value) for k in dest[0].keywords}
    R.check(dkw.get("version") == "version" and dkw.get("index_file") == "index_file" and dest[0].args and dotted(dest[0].args[0]) == "destination",
            "writer.TdmsWriter.defragment::destination arguments forwarded", fi.where(dest[0]), "destination, version and index_file forwarded",
            "the destination writer is created with %s" % unparse(dest[0]))
    # object constructors and role pairing
    ctors = {}
    for c in walk_body(fi.node):
        if isinstance(c, ast.Call) and isinstance(c.func, ast.Name) and c.func.id in ("RootObject", "GroupObject", "ChannelObject"):
            ctors.setdefault(c.func.id, []).append(c)
    for need in ("RootObject", "GroupObject", "ChannelObject"):
        if need not in ctors:
            R.violation("writer.TdmsWriter.defragment::%s" % need, fi.where(), "%s is never written" % need)
    loops = [n for n in walk_body(fi.node) if isinstance(n, ast.For)]
    gl = [l for l in loops if isinstance(l.iter, ast.Call) and call_name(l.iter) == "%s.groups" % srcvar]
    if not gl:
        raise AnchorMissing("writer.TdmsWriter.defragment: loop over file.groups()")
    gvar = gl[0].target.id
    cl = [l for l in ast.walk(gl[0]) if isinstance(l, ast.For) and l is not gl[0] and isinstance(l.iter, ast.Call) and call_name(l.iter) == "%s.channels" % gvar]
    if not cl:
        raise AnchorMissing("writer.TdmsWriter.defragment: loop over group.channels()")
    cvar = cl[0].target.id
    if "RootObject" in ctors:
        a = [unparse(x) for x in ctors["RootObject"][0].args]
        R.check(a == ["%s.properties" % srcvar], "writer.TdmsWriter.defragment::RootObject(file.properties)", fi.where(ctors["RootObject"][0]),
                "root properties copied", "RootObject(%s)" % ", ".join(a))
    if "GroupObject" in ctors:
        a = [unparse(x) for x in ctors["GroupObject"][0].args]
        R.check(a == ["%s.name" % gvar, "%s.properties" % gvar], "writer.TdmsWriter.defragment::GroupObject(group.name, group.properties)", fi.where(ctors["GroupObject"][0]),
                "group name and properties copied", "GroupObject(%s)" % ", ".join(a))
    if "ChannelObject" in ctors:
        c = ctors["ChannelObject"][0]
        a = [unparse(x) for x in c.args]
        ok = len(a) == 4 and a[0] == "%s.name" % gvar and a[1] == "%s.name" % cvar and a[3] == "%s.properties" % cvar
        R.check(ok, "writer.TdmsWriter.defragment::ChannelObject(group.name, channel.name, data, channel.properties)", fi.where(c),
                "channel written under its own group/name with its own properties", "ChannelObject(%s)" % ", ".join(a))
        data = c.args[2] if len(c.args) > 2 else None
        okd = isinstance(data, ast.Call) and call_name(data) == "%s.read_data" % cvar and \
            any(k.arg == "scaled" and prog.try_fold(k.value) is False for k in data.keywords) and not data.args
        R.check(okd, "writer.TdmsWriter.defragment::raw channel data", fi.where(c), "channel.read_data(scaled=False): the whole raw channel",
                "the data written is `%s`, not the complete raw channel data: scaled values would be stored next to the copied scaling properties" % (unparse(data) if data is not None else None))
    # every group and every channel is written in every iteration (no filter)
    def writes_of(name):
        return cfg.where(lambda n: any(call_name(c) == "new_file.write_segment" and name in unparse(c) for c in node_calls(n)))
    for loop, label, ctor in ((gl[0], "group", "GroupObject"), (cl[0], "channel", "ChannelObject")):
        heads = cfg.where(lambda n: n.kind == "for" and n.ast is loop)
        w = writes_of(ctor)
        ok = bool(w)
        for h in heads:
            starts = [m for m, k in h.succ if k == "loop" and m not in w]
            r = cfg.reach(starts, avoid=lambda n: n in w, follow_exc=False) if starts else set()
            if h in r:
                ok = False
        R.check(ok, "writer.TdmsWriter.defragment::every %s written" % label, fi.where(loop),
                "each iteration over the source's %ss writes the %s object" % (label, label),
                "a %s of the source can be skipped (its object is written only on some paths, e.g. together with its first channel): groups "
                "without channels and their properties would be missing from the copy" % label if label == "group" else
                "a channel of the source can be skipped")
    rw = writes_of("RootObject")
    R.check(bool(rw) and all(cfg.dominated_by(x, lambda n: n in rw)[0] for x in writes_of("GroupObject")), "writer.TdmsWriter.defragment::root first", fi.where(),
            "root object written before groups", "root object is not written first")
