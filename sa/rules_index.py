"""C09: MP2 (tag check before every segment data read), TM1 (ToC mask little-endian), CO1 (coordinate
spaces of seeks, next lead-in reached on every iteration), DF1 (index flag passed explicitly), MP4
(index-only guard), NC1 (None-check contradiction).  C10: KC1 (defragment call-site constants and roles)."""
import ast

from .registry import rule
from .core import call_name, dotted, walk_shallow, walk_body, unparse, AnchorMissing
from .cfg import node_calls, CFG
from .absval import assume_from, eval_test, NONE, NOTNONE
from .rules_layout import UNPACK_NAMES, _format_parts
from .rules_flow import _names, dep_closure


def _stream_aliases(fi, field="self._file"):
    out = {field}
    for n in walk_body(fi.node):
        if isinstance(n, ast.Assign) and dotted(n.value) in out:
            for t in n.targets:
                if isinstance(t, ast.Name):
                    out.add(t.id)
    return out


def _segment_verifiers(ctx):
    """functions that seek a stream to <parameter>.position and may raise (discovered by role, wherever they live; what
    they compare is checked by the rule): {qual: (FuncInfo, parameter, seek call, stream text)}"""
    from .sym import Sym
    prog = ctx.prog
    out = {}
    for q, f in sorted(prog.functions.items()):
        if not q.startswith("reader."):
            continue
        if not any(isinstance(k, ast.Raise) for k in walk_body(f.node)):
            continue
        sy = None
        for c in walk_body(f.node):
            if isinstance(c, ast.Call) and isinstance(c.func, ast.Attribute) and c.func.attr == "seek" and c.args:
                sy = sy or Sym(prog, f, f.cls)
                env, _g = sy.env_at(c)
                tgt = sy.expr(c.args[0], env)
                if tgt and tgt[0] == "attr" and tgt[1][0] == "param" and tgt[2] == "position":
                    out[q] = (f, tgt[1][1], c, dotted(c.func.value))
    # the seek behind a small helper:  tag = _read_tag(self._file, segment.position)  with  def _read_tag(f, pos): f.seek(pos); ...
    seekers = {}
    for q, g in prog.functions.items():
        if q.startswith("reader.") and g.cls is None:
            for c in walk_body(g.node):
                if isinstance(c, ast.Call) and isinstance(c.func, ast.Attribute) and c.func.attr == "seek" and c.args and isinstance(c.args[0], ast.Name) \
                        and c.args[0].id in g.params and isinstance(c.func.value, ast.Name) and c.func.value.id in g.params:
                    seekers[q] = (g.params.index(c.func.value.id), g.params.index(c.args[0].id))
    if seekers:
        from .flow import resolve_call
        for q, f in sorted(prog.functions.items()):
            if not q.startswith("reader.") or q in out or not any(isinstance(k, ast.Raise) for k in walk_body(f.node)):
                continue
            sy = None
            for c in walk_body(f.node):
                if isinstance(c, ast.Call):
                    for g, _k in resolve_call(prog, f, f.cls, c):
                        if g.qual in seekers and len(c.args) > max(seekers[g.qual]):
                            sy = sy or Sym(prog, f, f.cls, inline=False)
                            env, _g = sy.env_at(c)
                            tgt = sy.expr(c.args[seekers[g.qual][1]], env)
                            if tgt and tgt[0] == "attr" and tgt[1][0] == "param" and tgt[2] == "position":
                                out[q] = (f, tgt[1][1], c, dotted(c.args[seekers[g.qual][0]]))
    return out


def _ctor_fields(ci):
    """{parameter position (without self): field} for `self.f = parameter` in __init__"""
    init = ci.methods.get("__init__") if ci else None
    out = {}
    if init:
        for n in walk_body(init.node):
            if isinstance(n, ast.Assign) and isinstance(n.value, ast.Name) and n.value.id in init.params[1:]:
                for t in n.targets:
                    if isinstance(t, ast.Attribute) and dotted(t.value) == "self":
                        out[init.params.index(n.value.id) - 1] = (t.attr, n.value.id)
    return out


class _Verified(object):
    """which names hold a segment whose start has been verified: by a dominating verifier call in the same iteration, or
    because the loop draws them from a generator that verifies each item before yielding it (shapes: 'v' | ('tuple', [..])
    | ('obj', {field: shape}))"""

    def __init__(self, ctx, verifiers):
        from .region import call_targets
        self.ctx, self.prog, self.V = ctx, ctx.prog, set(verifiers)
        self.call_targets = call_targets
        self.gen_shapes = {}
        for _round in range(3):
            for q, f in sorted(self.prog.functions.items()):
                if q.startswith("reader.") and q not in self.V and any(isinstance(y, ast.Yield) for y in walk_body(f.node)):
                    sh = self._yield_shape(f)
                    if sh is not None:
                        self.gen_shapes[q] = sh

    def chk(self, fi, cfg, seg):
        from .region import nodes_reaching
        verify = set(nodes_reaching(self.ctx, fi, cfg, self.V))
        return lambda x: x in verify and any(seg in [dotted(a) for a in list(y.args) + [k.value for k in y.keywords]] for y in node_calls(x))

    def dominated(self, fi, cfg, node, seg):
        """node is reached only through a verification of seg in the same iteration of the loop that binds seg"""
        chk = self.chk(fi, cfg, seg)
        root = seg.split(".")[0]
        heads = cfg.where(lambda x: x.kind == "for" and root in _names(x.ast.target))
        starts = []
        for h in heads:
            if seg in self.bound_verified(fi, h.ast):
                continue
            starts += [m for m, k in h.succ if k == "loop"]
        if not heads:
            starts = [cfg.entry]
        starts = [m for m in starts if not chk(m)]
        r = cfg.reach(starts, avoid=chk, follow_exc=False) if starts else set()
        return not (node in r and not chk(node))

    def _iter_shape(self, fi, e, depth=0):
        if depth > 4:
            return None
        if isinstance(e, ast.Name):
            defs = [n for n in walk_body(fi.node) if isinstance(n, ast.Assign) and any(isinstance(t, ast.Name) and t.id == e.id for t in n.targets)]
            if len(defs) == 1:
                return self._iter_shape(fi, defs[0].value, depth + 1)
            return None
        if isinstance(e, ast.Call):
            if call_name(e) == "enumerate" and e.args:
                inner = self._iter_shape(fi, e.args[0], depth + 1)
                return ("tuple", [None, inner]) if inner is not None else None
            if call_name(e) in ("iter", "list", "tuple") and e.args:
                return self._iter_shape(fi, e.args[0], depth + 1)
            ts = self.call_targets(self.ctx, fi, e)
            shapes = [self.gen_shapes.get(t) for t in ts]
            if shapes and all(x is not None and x == shapes[0] for x in shapes):
                return shapes[0]
        return None

    def bound_verified(self, fi, for_node):
        out = set()

        def bind(t, sh):
            if sh is None:
                return
            if sh == "v":
                if dotted(t):
                    out.add(dotted(t))
            elif sh[0] == "tuple" and isinstance(t, (ast.Tuple, ast.List)) and len(t.elts) == len(sh[1]):
                for a, b in zip(t.elts, sh[1]):
                    bind(a, b)
            elif sh[0] == "obj" and dotted(t):
                for fld, sub in sh[1].items():
                    if sub == "v":
                        out.add(dotted(t) + "." + fld)
        bind(for_node.target, self._iter_shape(fi, for_node.iter))
        return out

    def _yield_shape(self, f):
        cfg = self.ctx.cfg(f)
        shapes = []
        for y in walk_body(f.node):
            if not isinstance(y, ast.Yield):
                continue
            nodes = cfg.where(lambda x: any(z is y for z in ast.walk(x.ast)) if getattr(x, "ast", None) is not None else False)

            def shape(e):
                if isinstance(e, ast.Name):
                    return "v" if nodes and all(self.dominated(f, cfg, nd, e.id) for nd in nodes) and self._some_check(f, cfg, e.id) else None
                if isinstance(e, ast.Tuple):
                    subs = [shape(x) for x in e.elts]
                    return ("tuple", subs) if any(x is not None for x in subs) else None
                if isinstance(e, ast.Call):
                    ci = self.prog.resolve_class(f.module, e.func)
                    if ci is not None:
                        flds = {}
                        cf = _ctor_fields(ci)
                        for pos, a in enumerate(e.args):
                            if pos in cf and shape(a) == "v":
                                flds[cf[pos][0]] = "v"
                        for k in e.keywords:
                            for pos, (fld, pname) in cf.items():
                                if k.arg == pname and shape(k.value) == "v":
                                    flds[fld] = "v"
                        return ("obj", flds) if flds else None
                return None
            shapes.append(shape(y.value) if y.value is not None else None)
        if shapes and all(x is not None and x == shapes[0] for x in shapes):
            return shapes[0]
        return None

    def _some_check(self, f, cfg, seg):
        chk = self.chk(f, cfg, seg)
        root = seg.split(".")[0]
        heads = cfg.where(lambda x: x.kind == "for" and root in _names(x.ast.target))
        return bool(cfg.where(chk)) or any(seg in self.bound_verified(f, h.ast) for h in heads)


@rule("MP2", "every segment data read is preceded, in the same iteration, by the segment start (tag) check", floor=4)
def mp2(ctx, R):
    from .sym import Sym, show, alpha
    prog = ctx.prog
    cls = prog.cls("reader.TdmsReader")
    verifiers = _segment_verifiers(ctx)
    if not verifiers:
        raise AnchorMissing("a function that seeks to <segment>.position and raises when what it finds there is not a segment start")
    ver = _Verified(ctx, verifiers)
    n = 0
    for name, fi in sorted(cls.methods.items()):
        cfg = None
        aliases = _stream_aliases(fi)
        for c in walk_body(fi.node):
            if isinstance(c, ast.Call) and isinstance(c.func, ast.Attribute) and c.func.attr in ("read_raw_data", "read_raw_data_for_channel") \
                    and c.args and dotted(c.args[0]) in aliases:
                n += 1
                seg = dotted(c.func.value)
                cfg = cfg or ctx.cfg(fi)
                cn = cfg.where(lambda x: any(y is c for y in node_calls(x)))
                ok = all(ver.dominated(fi, cfg, node, seg) for node in cn)
                R.check(ok, "reader.TdmsReader.%s::%s.%s" % (name, seg, c.func.attr), fi.where(c),
                        "dominated by the segment start check of %s in the same iteration" % seg,
                        "data of a segment is read without first checking that the data file has a TDSm tag at the segment's position: a "
                        "stale or mismatching index file would be read as data")
    if n < 3:
        raise AnchorMissing("segment data reads in reader.TdmsReader (found %d)" % n)
    vq = sorted(verifiers)[0]
    vs, segp, seek0, stream = verifiers[vq]
    sy = Sym(prog, vs, vs.cls)
    seg = ("param", segp)
    al = _stream_aliases(vs, stream)
    seeks = [c for c in walk_body(vs.node) if isinstance(c, ast.Call) and isinstance(c.func, ast.Attribute) and c.func.attr == "seek" and dotted(c.func.value) in al]
    if not seeks and not (isinstance(seek0.func, ast.Attribute) and seek0.func.attr == "seek"):
        R.unrecognised("%s::seek / read / tag" % vq, vs.where(seek0), "the stream is positioned and read by a helper (`%s`): how many bytes are read and "
                       "what they are compared with was not followed" % unparse(seek0)[:60])
        return
    ok = False
    if seeks:
        env, _g = sy.env_at(seeks[0])
        tgt = sy.expr(seeks[0].args[0], env) if seeks[0].args else None
        whence_ok = len(seeks[0].args) == 1 or (len(seeks[0].args) == 2 and (dotted(seeks[0].args[1]) == "os.SEEK_SET" or prog.try_fold(seeks[0].args[1]) == 0))
        ok = tgt == ("attr", seg, "position") and whence_ok
    R.check(ok, "%s::seek" % vq, vs.where(), "absolute seek of the data stream to segment.position",
            "the check does not seek the data file to the segment's position")
    reads = [c for c in walk_body(vs.node) if isinstance(c, ast.Call) and isinstance(c.func, ast.Attribute) and c.func.attr == "read" and dotted(c.func.value) in al]
    nbytes = None
    if reads:
        env, _g = sy.env_at(reads[0])
        v = sy.expr(reads[0].args[0], env) if reads[0].args else None
        if v and v[0] == "const":
            nbytes = v[1]
        elif v and v[0] == "len" and v[1][0] == "const" and isinstance(v[1][1], bytes):
            nbytes = len(v[1][1])
    R.check(len(reads) == 1 and nbytes == 4, "%s::reads the 4-byte tag" % vq, vs.where(), "one 4-byte read per segment touched",
            "the segment start check reads %s bytes in %d read(s)" % (nbytes, len(reads)))
    # the comparison with b'TDSm' decides between returning and raising
    cfg = ctx.cfg(vs)
    good = False
    for t in cfg.where(lambda x: x.kind == "test"):
        env, _g = sy.env_at(t.ast)
        c = sy.expr(t.ast, env)
        if c and c[0] == "cmp" and c[1] in ("!=", "==") and ("const", b"TDSm") in (c[2], c[3]) and any(
                isinstance(o, tuple) and o and o[0] == "method" and o[1] == "read" for o in (c[2], c[3])):
            mismatch = "true" if c[1] == "!=" else "false"
            succ = [m for m, k in t.succ if k == mismatch]
            r = cfg.reach(succ, follow_exc=True)
            raises_only = cfg.exit not in r and all(m is not cfg.exit for m in succ) and (cfg.raise_exit in r or any(m.kind == "raisestmt" for m in succ))
            match = [m for m, k in t.succ if k == ("false" if mismatch == "true" else "true")]
            r2 = cfg.reach(match, follow_exc=False)
            returns = cfg.exit in r2 or any(m is cfg.exit for m in match)
            good = raises_only and returns
    R.check(good, "%s::tag" % vq, vs.where(), "raises unless the 4 bytes are b'TDSm'",
            "the data-file tag check changed: no comparison of the bytes read with b'TDSm' that raises on mismatch and returns on match")


@rule("TM1", "the ToC mask is parsed little-endian wherever a lead-in is examined", floor=1)
def tm1(ctx, R):
    """A ToC mask is recognised by its use: a value that is and-ed with an entry of toc_properties.  In normal form (helpers
    inlined) the unpack calls such a value comes from are collected; their format must be a constant little-endian one."""
    from .sym import Sym, show, alpha, collect
    from .sem import find, W
    prog = ctx.prog
    n = 0
    seen = set()
    try:
        _tab = prog.try_fold(prog.module("common").assigns.get("toc_properties"), prog.module("common"), default=None)
    except Exception:
        _tab = None
    flagvals = {v for v in _tab.values() if isinstance(v, int) and v > 1} if isinstance(_tab, dict) else set()
    # an entry of toc_properties, looked up or through a named constant that folds to one of its values
    is_flag = lambda x: isinstance(x, tuple) and ((len(x) == 3 and x[0] == "sub" and x[1] in (("global", "toc_properties"), ("name", "toc_properties"))) or
                                                  (len(x) == 2 and x[0] == "const" and isinstance(x[1], int) and not isinstance(x[1], bool) and x[1] in flagvals))
    for fi in sorted(prog.functions.values(), key=lambda f: f.qual):
        if fi.module.name == "writer":
            continue
        ands = [b for b in walk_body(fi.node) if isinstance(b, ast.BinOp) and isinstance(b.op, ast.BitAnd)]
        if not ands:
            continue
        sy = Sym(prog, fi, fi.cls)
        for b in ands:
            env, _g = sy.env_at(b)
            v = sy.expr(b, env)
            if not collect(v, is_flag):
                continue
            is_unpack = lambda x: isinstance(x, tuple) and len(x) == 4 and x[0] == "call" and isinstance(x[1], str) and "unpack" in x[1] and x[2]
            found = collect(v, is_unpack)
            if not found:
                # the mask is a parameter here: what the callers hand in
                from .sem import call_arg
                for p_ in {x[1] for x in collect(v, lambda x: isinstance(x, tuple) and len(x) == 2 and x[0] == "param")}:
                    for e in ctx.callgraph().callers(fi.qual):
                        g = prog.functions.get(e.caller)
                        if g is None or not isinstance(e.node, ast.Call):
                            continue
                        sg = Sym(prog, g, g.cls)
                        eg, _gg = sg.env_at(e.node)
                        a = call_arg(prog, e.node, fi, p_, sg, eg)
                        if a is not None:
                            found += collect(a, is_unpack)
            for u in found:
                fmt = u[2][0]
                k = alpha(u)
                if k in seen:
                    continue
                seen.add(k)
                n += 1
                key = "%s::toc mask unpack" % fi.qual
                if fmt[0] == "binop" and fmt[1] == "+" and all(isinstance(t, tuple) and t[0] == "const" and isinstance(t[1], str) for t in fmt[2]):
                    fmt = ("const", "".join(t[1] for t in fmt[2]))          # named byte-order constant + type code
                if fmt[0] == "const" and isinstance(fmt[1], str):
                    R.check(fmt[1].startswith("<"), key, fi.where(b), "format %r (little-endian by specification)" % fmt[1],
                            "the ToC mask is unpacked with %r: the mask holds the byte-order flag itself and is always little-endian; for big-endian "
                            "segments this value is wrong" % fmt[1])
                else:
                    R.violation(key, fi.where(b), "the ToC mask is unpacked with the computed format `%s`: the mask holds the byte-order flag itself and is "
                                "always little-endian" % show(alpha(fmt))[:80])
    if n < 1:
        raise AnchorMissing("ToC mask unpack sites")


# coordinate spaces
SPACE_D = {"segment.position", "segment.data_position", "segment.next_segment_pos", "segment_position", "self._data_file_size", "next_segment_pos", "data_position"}
SPACE_I = {"start_position"}


IDX_IS_NONE = ("cmp", "is", ("self", "_index_file"), ("const", None))
DATA_IS_NONE = ("cmp", "is", ("self", "_file"), ("const", None))


def _mode_oracle(index_mode, data_open=None):
    """decides `self._index_file is None` (and optionally `self._file is None`) for one parsing mode"""
    def oracle(c):
        if c == IDX_IS_NONE:
            return not index_mode
        if c == ("self", "_index_file"):
            return True if index_mode else False
        if data_open is not None:
            if c == DATA_IS_NONE:
                return not data_open
            if c == ("self", "_file"):
                return True if data_open else False
        return None
    return oracle


D_ATTRS = ("position", "data_position", "next_segment_pos")   # data-file offsets carried by a parsed segment (typed by CO1's lead-in clause)


def _svec(x, stream):
    """(coefficient of offsets in the stream being parsed, coefficient of data-file offsets) of a canonical value, or None"""
    if not isinstance(x, tuple) or not x:
        return None
    if x[0] == "method" and x[1] == "tell" and x[2] == stream:
        return (1, 0)
    if x[0] == "attr" and x[2] in D_ATTRS:
        return (0, 1)
    if x == ("self", "_data_file_size"):
        return (0, 1)
    if x[0] == "const" and isinstance(x[1], int) and not isinstance(x[1], bool):
        return (0, 0)
    if x[0] == "binop" and x[1] in ("+", "-"):
        vs = [_svec(t, stream) for t in x[2]]
        if any(v is None for v in vs):
            return None
        a, b = vs[0]
        for v in vs[1:]:
            sgn = 1 if x[1] == "+" else -1
            a, b = a + sgn * v[0], b + sgn * v[1]
        return (a, b)
    return None


class _BSym(object):
    """Sym of a helper whose parameters are bound to the caller's values (root terms)"""

    def __init__(self, sy, bound):
        self.sy, self.bound = sy, bound

    def env_at(self, node):
        return self.sy.env_at(node, bound=self.bound)

    def expr(self, e, env):
        return self.sy.expr(e, env)


def _lead_in_site(ctx, fi):
    """the call of the segment metadata parser on the way from read_metadata: (function holding the segment loop, call, Sym of that
    function with its parameters bound to read_metadata's values)"""
    from .flow import resolve_call
    from .region import region
    from .sem import call_chains
    from .sym import Sym
    prog = ctx.prog
    for g in region(ctx, fi, depth=2):
        if g.cls is not fi.cls:
            continue
        for c in walk_body(g.node):
            if isinstance(c, ast.Call):
                for f, _k in resolve_call(prog, g, g.cls, c):
                    if f.qual == "reader.TdmsReader._read_segment_metadata":
                        bound = {}
                        if g is not fi:
                            chains = call_chains(prog, fi, g, inline=True)
                            if not chains:
                                continue
                            bound = chains[0][1]
                        return g, c, _BSym(Sym(prog, g, g.cls), bound)
    raise AnchorMissing("reader.TdmsReader.read_metadata: call of _read_segment_metadata")


@rule("CO1", "while parsing the index stream every seek target is an index-stream offset; the next lead-in is reached in every iteration", floor=4)
def co1(ctx, R):
    from .sym import Sym, simplify, eval_cond, show
    prog = ctx.prog
    fi, rc, sy = _lead_in_site(ctx, prog.func("reader.TdmsReader.read_metadata"))
    cfg = ctx.cfg(fi)
    env, _g = sy.env_at(rc)
    if not rc.args:
        raise AnchorMissing("reader.TdmsReader.read_metadata: stream argument of _read_segment_metadata")
    stream = sy.expr(rc.args[0], env)
    # which stream is parsed in which mode
    for mode, want in ((True, ("self", "_index_file")), (False, ("self", "_file"))):
        got = simplify(stream, _mode_oracle(mode, data_open=True))
        R.check(got == want, "reader.TdmsReader.read_metadata::stream parsed when the index file is %s" % ("present" if mode else "absent"), fi.where(rc),
                "parses %s" % show(got), "the stream handed to the lead-in parser is `%s`, expected %s" % (show(got), show(want)))
    # position in the stream being parsed, taken before the lead-in is read in the same iteration
    heads = cfg.where(lambda n: n.kind == "test" and n.label == "while")
    rcn = cfg.where(lambda n: any(c is rc for c in node_calls(n)))
    if not heads or not rcn:
        raise AnchorMissing("reader.TdmsReader.read_metadata: segment loop")
    after = cfg.reach([m for n in rcn for m, k in n.succ if k not in ("exc", "uncaught")], avoid=lambda n: n in heads, follow_exc=False)
    tells = []
    for n in cfg.nodes:
        for c in node_calls(n):
            if isinstance(c.func, ast.Attribute) and c.func.attr == "tell":
                e2, _ = sy.env_at(c)
                if sy.expr(c.func.value, e2) == stream:
                    tells.append((n, c))
    R.check(bool(tells) and all(n not in after for n, c in tells), "reader.TdmsReader.read_metadata::lead-in start", fi.where(tells[0][1]) if tells else fi.where(),
            "the stream position is taken before the lead-in is read", "the stream position used for the next seek is not taken at the start of the lead-in "
            "(it is read after the segment metadata has been parsed, or not at all)")
    # seeks of the parsed stream
    seeks = []
    for n in cfg.nodes:
        for c in node_calls(n):
            if isinstance(c.func, ast.Attribute) and c.func.attr == "seek" and c.args:
                e2, g2 = sy.env_at(c)
                if sy.expr(c.func.value, e2) == stream:
                    seeks.append((n, c, sy.expr(c.args[0], e2), g2))
    if not seeks:
        raise AnchorMissing("reader.TdmsReader.read_metadata: seek of the parsed stream")
    for n, c, tgt, guards in seeks:
        whence_ok = len(c.args) == 1 or dotted(c.args[1]) in ("os.SEEK_SET",) or prog.try_fold(c.args[1], fi.module, default="?") == 0
        for mode in (True, False):
            orc = _mode_oracle(mode, data_open=True)
            if any(eval_cond(g, orc) is False for g in guards):
                continue
            t = simplify(tgt, orc)
            st = simplify(stream, orc)
            key = "reader.TdmsReader.read_metadata::seek target while parsing the %s" % ("index stream" if mode else "data file")
            if not whence_ok:
                R.violation(key, fi.where(c), "relative seek between segments")
                continue
            v = _svec(t, st)
            if v is None:
                R.undecided(key, fi.where(c), "coordinate space of `%s` not understood" % show(t)[:120])
            elif mode:
                R.check(v == (1, 0), key, fi.where(c), "index-stream offset (lead-in start + metadata length): %s" % show(t)[:100],
                        "while reading from the index file the stream is positioned at `%s`, which is not an offset in the index stream: "
                        "index and data offsets differ by the raw data of all earlier segments" % show(t)[:160])
            else:
                R.check(v[0] + v[1] == 1, key, fi.where(c), "data-file offset of the next segment: %s" % show(t)[:100],
                        "the data file is positioned at `%s`, which is not a data-file offset" % show(t)[:160])
    # from the append of a parsed segment every path back to the loop head passes a seek of the stream
    app = cfg.where(lambda n: any(call_name(c) == "self._segments.append" for c in node_calls(n))) or rcn
    seek_nodes = {n for n, c, t, g in seeks}
    r = cfg.reach([m for a in app for m, k in a.succ if k not in ("exc", "uncaught")], avoid=lambda n: n in seek_nodes, follow_exc=False)
    R.check(not any(h in r for h in heads), "reader.TdmsReader.read_metadata::next lead-in reached on every iteration", fi.where(app[0].ast),
            "every iteration ends with a seek to the next lead-in", "on some path the loop continues without positioning the stream at the next "
            "lead-in (e.g. only for segments that have metadata): the next 28 bytes parsed are not a lead-in")
    # the segment position handed to the lead-in parser is a data-file offset in both modes: its loop-carried update
    callee = prog.func("reader.TdmsReader._read_segment_metadata")
    pname = callee.params[2] if len(callee.params) > 2 else None
    parg = rc.args[1] if len(rc.args) > 1 else next((k.value for k in rc.keywords if k.arg == pname), None)
    upd = []
    if isinstance(parg, ast.Name):
        for n in cfg.nodes:
            if n in after and n.kind == "stmt" and isinstance(n.ast, ast.Assign) and any(dotted(t) == parg.id for t in n.ast.targets):
                e2, _ = sy.env_at(n.ast)
                upd.append((n, sy.expr(n.ast.value, e2)))
    ok = bool(upd) and all(_svec(simplify(v, _mode_oracle(m, True)), simplify(stream, _mode_oracle(m, True))) == (0, 1) for n, v in upd for m in (True, False))
    R.check(ok, "reader.TdmsReader.read_metadata::segment position", fi.where(upd[0][0].ast) if upd else fi.where(rc),
            "segment positions are data-file offsets in both modes", "the segment position passed to the lead-in parser is updated from `%s`, "
            "which is not the data-file offset of the next segment" % (show(upd[0][1])[:120] if upd else None))
    # clamp: the data file size is compared with data-file offsets only
    n_cmp = 0
    for qual in sorted("reader.TdmsReader." + m for m in prog.cls("reader.TdmsReader").methods):
        li = prog.func(qual)
        if not any(isinstance(x, ast.Attribute) and x.attr == "_data_file_size" for x in ast.walk(li.node)):
            continue
        sl = Sym(prog, li, li.cls, inline=False)
        for x in walk_body(li.node):
            if isinstance(x, ast.Compare) and len(x.ops) == 1 and not isinstance(x.ops[0], (ast.Is, ast.IsNot, ast.Eq, ast.NotEq)):
                e2, _ = sl.env_at(x)
                l, r_ = sl.expr(x.left, e2), sl.expr(x.comparators[0], e2)
                if ("self", "_data_file_size") not in (l, r_):
                    continue
                n_cmp += 1
                other = r_ if l == ("self", "_data_file_size") else l
                v = _lead_in_vec(other, li)
                R.check(v == (0, 1), "%s::clamp against the data file size" % qual, li.where(x),
                        "segment end (data-file offset) is clamped against the data file's size", "the data file size is compared with `%s`, which is not a "
                        "data-file offset" % show(other)[:120])
    if n_cmp < 1:
        R.unrecognised("reader.TdmsReader::clamp against the data file size", prog.module("reader").relpath, "no ordering comparison with self._data_file_size in "
                       "a method of TdmsReader (the clamp may have moved into a helper that is handed the size): not decided")
    # _data_file_size is measured on the data stream
    init = prog.func("reader.TdmsReader.__init__")
    si = Sym(prog, init, init.cls, inline=False)
    stores = [n for n in walk_body(init.node) if isinstance(n, ast.Assign) and any(dotted(t) == "self._data_file_size" for t in n.targets)]
    ok = bool(stores)
    for n in stores:
        e2, _ = si.env_at(n)
        v = si.expr(n.value, e2)
        leaves = []

        def walk(v):
            if isinstance(v, tuple) and v and v[0] == "phi":
                walk(v[2]); walk(v[3])
            else:
                leaves.append(v)
        walk(v)
        for lf in leaves:
            if lf == ("const", None):
                continue
            if isinstance(lf, tuple) and lf[0] == "call" and lf[2] and lf[2][0] == ("self", "_file"):
                continue
            ok = False
    R.check(ok, "reader.TdmsReader.__init__::_data_file_size from the data file", init.where(),
            "size is taken from the data stream only", "the size used for clamping is taken from another stream than the data file")


def _lead_in_vec(x, li):
    """space of a canonical value inside the lead-in parser: the segment_position parameter and the data file size are
    data-file offsets, everything unpacked from the lead-in is a length"""
    if not isinstance(x, tuple) or not x:
        return None
    if x[0] == "param":
        return (0, 1) if "position" in x[1] or x[1].endswith("_pos") else (0, 0)
    if x == ("self", "_data_file_size"):
        return (0, 1)
    if x[0] == "const" and isinstance(x[1], int):
        return (0, 0)
    if x[0] in ("item", "call", "method", "bv", "unpack"):
        return (0, 0)
    if x[0] == "binop" and x[1] in ("+", "-"):
        vs = [_lead_in_vec(t, li) for t in x[2]]
        if any(v is None for v in vs):
            return None
        a, b = vs[0]
        for v in vs[1:]:
            sgn = 1 if x[1] == "+" else -1
            a, b = a + sgn * v[0], b + sgn * v[1]
        return (a, b)
    if x[0] == "binop" and x[1] == "*":
        vs = [_lead_in_vec(t, li) for t in x[2]]
        return (0, 0) if all(v == (0, 0) for v in vs) else None
    return None


@rule("DF1", "index-vs-data mode is passed explicitly to the lead-in parser and selects the expected tag", floor=3)
def df1(ctx, R):
    from .sym import Sym, simplify, eval_cond, show
    from .flow import resolve_call
    prog = ctx.prog
    rm = prog.func("reader.TdmsReader.read_metadata")
    rsm = prog.func("reader.TdmsReader._read_segment_metadata")
    li = prog.func("reader.TdmsReader._read_lead_in")
    # the expected tag inside the lead-in parser, as a function of its parameters
    # (in the parser itself or in a helper it calls: the helper's parameters are replaced by the parser's arguments)
    from .sem import call_chains
    from .region import region
    tagcmp = None
    holder = li
    for g in region(ctx, li, depth=2):
        if g.module is not li.module:
            continue
        bindings = [{}] if g is li else [b for _gs, b in call_chains(prog, li, g, inline=True)]
        for bound in bindings[:1]:
            sl = Sym(prog, g, g.cls, inline=True)
            for x in walk_body(g.node):
                if isinstance(x, ast.Compare) and len(x.ops) == 1 and isinstance(x.ops[0], (ast.Eq, ast.NotEq)):
                    e2, _ = sl.env_at(x, bound=bound)
                    c = sl.expr(x, e2)
                    for side in (c[2], c[3]):
                        consts = [y for y in _leaves(side)]
                        if consts and all(y[0] == "const" and isinstance(y[1], bytes) and y[1] in (b"TDSh", b"TDSm") for y in consts) and tagcmp is None:
                            tagcmp = (x, side)
                            holder = g
    if tagcmp is None:
        raise AnchorMissing("reader.TdmsReader._read_lead_in: comparison of the tag with TDSh/TDSm")
    x, expected = tagcmp
    flags = sorted({y[1] for y in _collect_params(expected)})
    if not flags:
        R.violation("reader.TdmsReader._read_lead_in::expected tag", holder.where(x), "the expected tag `%s` does not depend on which stream is parsed: index files would be "
                    "rejected or data files accepted with the wrong tag" % show(expected))
        return
    flag = flags[0]

    def tag_for(value):
        def orc(c):
            if c == ("param", flag):
                return value
            return None
        return simplify(expected, orc)
    R.check(tag_for(True) == ("const", b"TDSh") and tag_for(False) == ("const", b"TDSm"), "reader.TdmsReader._read_lead_in::expected tag", holder.where(x),
            "TDSh for the index stream, TDSm for the data stream", "the expected tag is %s for the index stream and %s for the data file" % (show(tag_for(True)), show(tag_for(False))))
    # apart from the tag, the lead-in is parsed the same way from either stream: a test of the mode flag may only choose between the
    # two tags (anything else it decides - which segments are kept, how a truncated segment is treated - makes what is read depend on
    # whether an index file is present)
    if flag in holder.params:
        def only_tags(nodes):
            ok_ = True
            for st_ in nodes:
                for y in ast.walk(st_):
                    if isinstance(y, (ast.Raise, ast.Return, ast.Yield, ast.AugAssign)):
                        ok_ = False
                    if isinstance(y, ast.Call) and not (call_name(y) or "").startswith(("log.", "logging.", "logger.")):
                        ok_ = False
                    if isinstance(y, ast.Assign) and not (isinstance(y.value, ast.Constant) and y.value.value in (b"TDSh", b"TDSm")):
                        r_ = prog.try_fold(y.value, holder.module, default=None)
                        if r_ not in (b"TDSh", b"TDSm"):
                            ok_ = False
            return ok_
        other = None
        unknown = None
        n_tests = 0
        in_log = {id(z) for c_ in ast.walk(holder.node) if isinstance(c_, ast.Call) and (call_name(c_) or "").startswith(("log.", "logging.", "logger."))
                  for z in ast.walk(c_)}
        for y in ast.walk(holder.node):
            t_ = None
            if isinstance(y, ast.IfExp):
                t_, arms = y.test, None
                tagsel = all(prog.try_fold(a_, holder.module, default=None) in (b"TDSh", b"TDSm") for a_ in (y.body, y.orelse)) or id(y) in in_log
                if not tagsel and any(isinstance(z, ast.Name) and z.id == flag for z in ast.walk(t_)):
                    # a value chosen by the flag that is neither a tag nor a log text: what it is used for is not followed
                    unknown = y
                    continue
            elif isinstance(y, (ast.If, ast.While)):
                t_ = y.test
                tagsel = isinstance(y, ast.If) and only_tags(y.body) and only_tags(y.orelse)
            if t_ is None or not any(isinstance(z, ast.Name) and z.id == flag for z in ast.walk(t_)):
                continue
            n_tests += 1
            if not tagsel:
                other = y
        key_ = "%s::mode flag selects the tag only" % holder.qual
        if other is None and unknown is not None:
            R.unrecognised(key_, holder.where(unknown), "`%s` chooses a value that is neither a tag nor a log text (`%s`)" % (flag, unparse(unknown)[:60]))
        elif other is not None:
            R.violation(key_, holder.where(other), "`%s` makes the lead-in parser treat the index stream differently in more than the tag (`%s ...`): "
                        "the same file then reads differently with and without its index file" % (flag, unparse(other.test)[:60]))
        else:
            R.ok(key_, holder.where(), "%d test(s) of `%s`, each choosing between the two tags" % (n_tests, flag))
    # the tag comparison decides raise / continue
    cfg = ctx.cfg(holder)
    tn = cfg.where(lambda n: n.kind == "test" and any(y is x for y in ast.walk(n.ast)))
    ok = False
    for t in tn:
        mismatch = "true" if isinstance(x.ops[0], ast.NotEq) else "false"
        succ = [m for m, k in t.succ if k == mismatch]
        r = cfg.reach(succ, follow_exc=False)
        ok = ok or (cfg.exit not in r and all(m is not cfg.exit for m in succ))
    R.check(ok, "reader.TdmsReader._read_lead_in::tag mismatch raises", holder.where(x), "a segment with another tag is rejected",
            "a lead-in whose tag differs from the expected one is accepted")
    # the flag reaches the lead-in parser from read_metadata: value of the flag parameter as a function of read_metadata's state
    srm = Sym(prog, rsm, rsm.cls, inline=False)
    lcall = None
    for c in walk_body(rsm.node):
        if isinstance(c, ast.Call) and any(f.qual == li.qual for f, _k in resolve_call(prog, rsm, rsm.cls, c)):
            lcall = c
    if lcall is None:
        raise AnchorMissing("reader.TdmsReader._read_segment_metadata: call of _read_lead_in")

    def arg_of(call, callee, pname, sy, env):
        ps = [p for p in callee.params if p not in ("self", "cls")]
        i = ps.index(pname)
        if len(call.args) > i:
            return sy.expr(call.args[i], env)
        for k in call.keywords:
            if k.arg == pname:
                return sy.expr(k.value, env)
        d = callee.node.args.defaults
        names = [a.arg for a in callee.node.args.args]
        off = len(names) - len(d)
        j = names.index(pname) - off
        if j >= 0:
            return sy.expr(d[j], {})
        return None
    e2, _ = srm.env_at(lcall)
    inner = arg_of(lcall, li, flag, srm, e2)
    _holder, rc, sy = _lead_in_site(ctx, rm)
    e3, _ = sy.env_at(rc)
    stream = sy.expr(rc.args[0], e3) if rc.args else None
    for mode in (True, False):
        orc = _mode_oracle(mode, data_open=True)
        val = inner
        for p in _collect_params(inner or ()):
            outer = arg_of(rc, rsm, p[1], sy, e3)
            val = _subst(val, p, outer)
        got = eval_cond(val, orc) if val is not None else None
        if got is None and val is not None and val[0] == "const":
            got = bool(val[1])
        st = simplify(stream, orc)
        key = "reader.TdmsReader.read_metadata::mode flag when parsing %s" % ("the index stream" if mode else "the data file")
        if got is None:
            R.undecided(key, rm.where(rc), "value of the mode flag `%s` not decided" % show(val)[:100])
        else:
            R.check(got == mode and st == (("self", "_index_file") if mode else ("self", "_file")), key, rm.where(rc),
                    "flag %s together with stream %s" % (got, show(st)),
                    "while parsing %s the lead-in parser is told is_index_file=%s: %s" % (show(st), got,
                    "index files would be rejected or data files accepted with the wrong tag"))


def _leaves(v):
    if isinstance(v, tuple) and v and v[0] == "phi":
        return _leaves(v[2]) + _leaves(v[3])
    return [v]


def _collect_params(v):
    from .sym import collect
    return collect(v, lambda y: isinstance(y, tuple) and len(y) == 2 and y[0] == "param")


def _subst(v, old, new):
    if v == old:
        return new
    if isinstance(v, tuple):
        return tuple(_subst(y, old, new) for y in v)
    return v


@rule("MP4", "no data is ever returned when only an index file is open", floor=4)
def mp4(ctx, R):
    from .sym import Sym, simplify, eval_cond, show
    from .rules_resource import construct, READER_SCENARIOS
    from .region import nodes_reaching
    prog = ctx.prog
    iio = prog.func("reader.TdmsReader.is_index_file_only")
    pred = Sym(prog, iio, iio.cls).function_value()
    if pred[0] == "opaque":
        raise AnchorMissing("reader.TdmsReader.is_index_file_only: simple predicate")
    want = {"stream holding an index (TDSh)": True, "stream holding data (TDSm)": False, "path of a .tdms_index file": True,
            "path of a .tdms file without index": False, "path of a .tdms file with an index beside it": False}
    n = 0
    from .rules_resource import model_unfit
    unfit = model_unfit(prog, "reader.TdmsReader")
    if unfit:
        R.unrecognised("reader.TdmsReader.is_index_file_only::constructor scenarios", iio.where(), "the constructor's handle / path fields are not assigned in the "
                       "modelled way: %s" % unfit)
        n = 4
    for name, scn in ([] if unfit else READER_SCENARIOS):
        if name not in want:
            raise AnchorMissing("constructor scenario %s" % name)
        finals = construct(prog, "reader.TdmsReader", scn)
        key = "reader.TdmsReader.is_index_file_only::%s" % name
        if not finals:
            R.undecided(key, iio.where(), "constructor outcome not determined for this input")
            continue
        n += 1
        for st in finals:
            facts = {nm: v for (k, nm, v) in st if k == "null"}
            bools = {nm: v for (k, nm, v) in st if k == "bool"}

            def orc(c, facts=facts, bools=bools):
                if isinstance(c, tuple) and c and c[0] == "self" and ("self." + c[1]) in bools:
                    return bools["self." + c[1]]
                if isinstance(c, tuple) and c and c[0] == "cmp" and c[1] == "is" and c[3] == ("const", None) and c[2][0] == "self":
                    f = facts.get("self." + c[2][1])
                    return None if f is None else (f == "none")
                if isinstance(c, tuple) and c and c[0] == "self":
                    f = facts.get("self." + c[1])
                    if f == "none":
                        return False
                return None
            got = eval_cond(pred, orc)
            if got is None:
                R.undecided(key, iio.where(), "predicate `%s` not decidable from the constructor's stores (%s)" % (show(pred)[:80], dict(facts, **bools)))
            else:
                R.check(got == want[name], key, iio.where(), "evaluates to %s" % got,
                        "for a %s the constructor leaves %s and is_index_file_only() evaluates to %s (expected %s): %s" % (
                            name, dict(facts, **bools), got, want[name],
                            "data reads are not refused / reading is not forced to metadata only" if want[name] else "a data file is treated as index-only"))
    if n < 4:
        raise AnchorMissing("reader.TdmsReader.__init__: constructor scenarios (decided %d)" % n)
    from .sym import _rename_self
    from .callgraph import field_classes
    tf = prog.cls("tdms.TdmsFile")
    inlined = [_rename_self(pred, ("self", f)) for f, ks in field_classes(prog, tf).items() if any(k.qual == "reader.TdmsReader" for k in ks)]
    # the predicate as a call, or inlined on the reader the file object keeps
    IIO = lambda c: (isinstance(c, tuple) and c and c[0] in ("method", "call") and "is_index_file_only" in str(c[1])) or c in inlined
    fi = prog.func("tdms.TdmsFile.__init__")
    from .flow import resolve_call
    from .region import call_reaches, call_targets
    from .sem import call_arg, subst
    EAGER = {"reader.TdmsReader.read_raw_data"}
    orc = lambda c: True if IIO(c) else None
    unblocked = []
    n_sites = [0]

    def descend(f, binding, depth, chain):
        """calls in f that reach the eager data read and are not excluded when the reader is index-only"""
        sf = Sym(prog, f, f.cls)
        for c in walk_body(f.node):
            if not (isinstance(c, ast.Call) and call_reaches(ctx, f, c, EAGER)):
                continue
            if any(isinstance(x, ast.Call) and x is not c and call_reaches(ctx, f, x, EAGER) for x in ast.walk(c)):
                continue        # the inner call is examined on its own
            n_sites[0] += 1
            env, guards = sf.env_at(c)
            gs = []
            for g in guards:
                for p_, a_ in binding.items():
                    g = subst(g, ("param", p_), a_)
                gs.append(g)
            if any(eval_cond(simplify(g, orc), orc) is False for g in gs):
                continue
            tgts = [prog.functions[q] for q in call_targets(ctx, f, c) if q in prog.functions]
            inner = [t for t in tgts if t.module.name == "tdms" and depth < 4]
            if not inner:
                unblocked.append((f, c, chain))
                continue
            for t in inner:
                b2 = {}
                for p_ in t.params:
                    if p_ in ("self", "cls"):
                        continue
                    a_ = call_arg(prog, c, t, p_, sf, env)
                    if a_ is not None:
                        for p0, a0 in binding.items():
                            a_ = subst(a_, ("param", p0), a0)
                        b2[p_] = a_
                descend(t, b2, depth + 1, chain + [t.qual])
    descend(fi, {}, 0, [fi.qual])
    if not n_sites[0]:
        raise AnchorMissing("tdms.TdmsFile.__init__: a call that reaches the eager data read")
    R.check(not unblocked, "tdms.TdmsFile.__init__::metadata only when index only", fi.where(), "no call on the way to the eager data read is executed when "
            "the reader is index-only (%d call sites examined)" % n_sites[0],
            "an index-only input is not forced to metadata-only reading: %s is reached through %s without a condition that excludes an index-only reader" % (
                unparse(unblocked[0][1])[:60] if unblocked else "", " -> ".join(unblocked[0][2]) if unblocked else ""))
    rc = prog.func("tdms.TdmsChannel._read_channel_data")
    cfg = ctx.cfg(rc)
    guard_nodes = nodes_reaching(ctx, rc, cfg, {"reader.TdmsReader.is_index_file_only"})
    rdr = prog.cls("reader.TdmsReader")
    # calls of the reader's read methods, whatever the receiver is called (the field, or a local that holds it)
    reads = cfg.where(lambda n: any(isinstance(c.func, ast.Attribute) and c.func.attr.startswith("read") and (
        (dotted(c.func.value) or "").endswith("_reader") or any(k is rdr for _f, k in resolve_call(prog, rc, rc.cls, c))) for c in node_calls(n)))
    # the guard must be able to raise: the node is a test with a raising branch, or a helper call whose body raises under the predicate
    def refuses(g):
        if g.kind == "test":
            return any(m.kind == "raisestmt" for m, k in g.succ if k == "true")
        for c in node_calls(g):
            for f, _k in resolve_call(prog, rc, rc.cls, c):
                hcfg = ctx.cfg(f)
                ts = hcfg.where(lambda n: n.kind == "test" and "is_index_file_only" in unparse(n.ast))
                if any(m.kind == "raisestmt" for t in ts for m, k in t.succ if k == "true"):
                    return True
        return False
    guard = [g for g in guard_nodes if refuses(g)]
    ok = bool(guard) and all(cfg.dominated_by(r, lambda n: n in guard)[0] for r in reads)
    if not reads:
        R.unrecognised("tdms.TdmsChannel._read_channel_data::refuses index-only", rc.where(), "no call of a read method of the reader in this function")
    else:
        R.check(ok, "tdms.TdmsChannel._read_channel_data::refuses index-only", rc.where(), "raises before any data is read when only the index is open",
                "lazy channel reads are not refused for index-only files")


@rule("NC1", "a field that can be None is not used in arithmetic or ordering without a None test on that path", floor=1)
def nc1(ctx, R):
    """The data file size is None when only an index file is open.  Every ordering comparison / arithmetic operation of
    TdmsReader is put in symbolic normal form (locals substituted, helpers inlined); for each occurrence of the field in
    an operand position the conditions under which that occurrence is selected (enclosing ifs, conditional values,
    short-circuit operands) are evaluated with the field taken to be None: the occurrence is guarded iff one of them is false."""
    from .sym import Sym, eval_cond, show
    prog = ctx.prog
    cls = prog.cls("reader.TdmsReader")
    init = prog.func("reader.TdmsReader.__init__")
    si = Sym(prog, init, init.cls, inline=False)
    nullable = set()
    for n in walk_body(init.node):
        if isinstance(n, ast.Assign):
            for t in n.targets:
                if isinstance(t, ast.Attribute) and dotted(t.value) == "self" and t.attr == "_data_file_size":
                    v = si.expr(n.value, {})
                    if ("const", None) in _leaves(v):
                        nullable.add(t.attr)
    if not nullable:
        R.note("no nullable size field any more")
        R.ok("reader.TdmsReader::no nullable size field", init.where(), "nothing to check")
        return
    ORD = ("<", "<=", ">", ">=")
    ARITH = ("+", "-", "*", "/", "//", "**")
    for attr in sorted(nullable):
        field = ("self", attr)

        def oracle(c):
            if c == ("cmp", "is", field, ("const", None)) or c == ("cmp", "==", field, ("const", None)):
                return True
            if c == field:
                return False
            return None
        found = {}      # key -> list of (where, sink text, conds)
        guarded = []
        n_seen = [0]

        def value_occ(v, conds, out):
            if v == field:
                out.append(conds)
            elif isinstance(v, tuple) and v and v[0] == "phi":
                value_occ(v[2], conds + [v[1]], out)
                value_occ(v[3], conds + [("not", v[1])], out)

        def traverse(c, conds, where, fname):
            if not isinstance(c, tuple) or not c:
                return
            if c[0] in ("and", "or"):
                prev = []
                for op in c[1:]:
                    traverse(op, conds + prev, where, fname)
                    prev = prev + [op if c[0] == "and" else ("not", op)]
                return
            if c[0] == "phi":
                traverse(c[1], conds, where, fname)
                traverse(c[2], conds + [c[1]], where, fname)
                traverse(c[3], conds + [("not", c[1])], where, fname)
                return
            operands = None
            if c[0] == "cmp" and c[1] in ORD:
                operands, kind = [c[2], c[3]], "ordering"
            elif c[0] == "binop" and c[1] in ARITH and isinstance(c[2], tuple):
                operands, kind = list(c[2]), "arithmetic"
            if operands is not None:
                for o in operands:
                    occ = []
                    value_occ(o, conds, occ)
                    for cs in occ:
                        n_seen[0] += 1
                        vals = [eval_cond(x, oracle) for x in cs]
                        if any(v is False for v in vals):
                            guarded.append((where, show(c)[:80]))
                        else:
                            consts = sorted({y[1] for x in cs for y in _collect_consts(x)})
                            key = "reader.TdmsReader::%s is None where it is ordered/added, on the path selected by %s" % (
                                attr, ", ".join("== %d" % k for k in consts) if consts else "no constant test")
                            found.setdefault(key, []).append((where, fname, kind, show(c)[:100]))
            for y in c[1:]:
                if isinstance(y, tuple):
                    traverse(y, conds, where, fname)
        for name, fi in sorted(cls.methods.items()):
            if name == "__init__":
                continue
            sy = Sym(prog, fi, cls)
            seen_c = set()
            for st in walk_body(fi.node):
                exprs = []
                if isinstance(st, (ast.Assign, ast.AugAssign, ast.Return, ast.Expr)) and st.value is not None:
                    exprs = [st.value]
                elif isinstance(st, (ast.If, ast.While)):
                    exprs = [st.test]
                elif isinstance(st, ast.Assert):
                    exprs = [st.test]
                for e in exprs:
                    if not any(isinstance(x, (ast.Compare, ast.BinOp)) for x in ast.walk(e)) and not any(isinstance(x, ast.Call) for x in ast.walk(e)):
                        continue
                    env, guards = sy.env_at(st if not isinstance(st, (ast.If, ast.While)) else e)
                    c = sy.expr(e, env)
                    if not _mentions(c, field):
                        continue
                    traverse(c, list(guards), fi.where(e), fi.qual)
        for key, sites in sorted(found.items()):
            where, fname, kind, text = sites[0]
            R.violation(key, where, "`self.%s` is None when only an index file is open (the constructor stores None) and reaches %s unguarded: %s. "
                        "Opening a .tdms_index alone whose last lead-in carries the 'length unknown' marker raises TypeError instead of giving the metadata" % (
                            attr, " and ".join(sorted({k for _w, _f, k, _t in sites})), "; ".join("%s in %s @ %s" % (t, f, w) for w, f, _k, t in sites[:4])))
        for where, text in guarded[:6]:
            R.ok("reader.TdmsReader::%s guarded in `%s`" % (attr, text[:50]), where, "selected only when the field is not None")
        if n_seen[0] == 0:
            raise AnchorMissing("reader.TdmsReader: no ordering/arithmetic use of %s found" % attr)


def _mentions(c, leaf):
    if c == leaf:
        return True
    if isinstance(c, tuple):
        return any(_mentions(y, leaf) for y in c)
    return False


def _collect_consts(c):
    """integer constants compared for equality inside a canonical condition"""
    out = []
    if isinstance(c, tuple) and c:
        if c[0] == "cmp" and c[1] in ("==", "!="):
            for o in (c[2], c[3]):
                if isinstance(o, tuple) and o and o[0] == "const" and isinstance(o[1], int) and not isinstance(o[1], bool):
                    out.append(o)
        for y in c[1:]:
            out.extend(_collect_consts(y))
    return out


@rule("KC1", "defragment copies every object with raw data, raw timestamps and its own name/properties", floor=9)
def kc1(ctx, R):
    """The objects defragment writes are found as constructor calls of RootObject / GroupObject / ChannelObject in defragment and the
    helpers it calls (generators included); their arguments are read per parameter in normal form, with helper parameters replaced
    by the caller's arguments, and related to the loops over file.groups() and group.channels() they sit in."""
    from .sym import Sym, show, alpha
    from .sem import call_arg, match, W, find, calls_to, subst
    from .region import region, must_call_nodes, call_targets
    from .flow import resolve_call
    prog = ctx.prog
    fi = prog.func("writer.TdmsWriter.defragment")
    TF = prog.cls("tdms.TdmsFile")
    sy0 = Sym(prog, fi, fi.cls, inline=False)
    src = [c for c in walk_body(fi.node) if isinstance(c, ast.Call) and isinstance(c.func, (ast.Name, ast.Attribute)) and (
        prog.resolve_class(fi.module, c.func) is TF or (isinstance(c.func, ast.Attribute) and prog.resolve_class(fi.module, c.func.value) is TF and c.func.attr in ("read", "read_metadata", "open")))]
    if not src:
        raise AnchorMissing("writer.TdmsWriter.defragment: source TdmsFile(...)")
    kw = {k.arg: k.value for k in src[0].keywords}
    how = c_attr = src[0].func.attr if isinstance(src[0].func, ast.Attribute) and prog.resolve_class(fi.module, src[0].func) is not TF else "__init__"
    R.check(prog.try_fold(kw.get("raw_timestamps")) is True, "writer.TdmsWriter.defragment::raw_timestamps=True", fi.where(src[0]),
            "source is read with raw timestamps (full precision)", "the source is read without raw_timestamps=True: timestamps are copied at microsecond precision")
    R.check(prog.try_fold(kw.get("read_metadata_only")) is not True and how in ("__init__", "read") and "keep_open" not in kw,
            "writer.TdmsWriter.defragment::reads data", fi.where(src[0]), "source data is read", "the source is opened without data")
    env0, _g = sy0.env_at(src[0])
    SRC = sy0.expr(src[0], env0)
    W_CLS = prog.cls("writer.TdmsWriter")
    dest = [c for c in walk_body(fi.node) if isinstance(c, ast.Call) and (dotted(c.func) == "cls" or (isinstance(c.func, (ast.Name, ast.Attribute)) and prog.resolve_class(fi.module, c.func) is W_CLS))]
    if not dest:
        raise AnchorMissing("writer.TdmsWriter.defragment: destination writer")
    winit = prog.func("writer.TdmsWriter.__init__")
    envd, _g = sy0.env_at(dest[0])
    wp = [p for p in winit.params if p != "self"]
    got = {p: call_arg(prog, dest[0], winit, p, sy0, envd) for p in wp}
    dp = [p for p in fi.params if p not in ("cls", "self")]
    okd = got.get(wp[0]) == ("param", dp[1]) and got.get("version") == ("param", "version") and got.get("index_file") == ("param", "index_file")
    R.check(okd, "writer.TdmsWriter.defragment::destination arguments forwarded", fi.where(dest[0]), "destination, version and index_file forwarded",
            "the destination writer is created with %s" % {k: show(v) for k, v in got.items() if v is not None})
    # emit sites
    classes = {n: prog.cls("writer." + n) for n in ("RootObject", "GroupObject", "ChannelObject")}
    # defragment and the helpers that produce what it writes; the writer's own machinery (write_segment and below) is not part of it
    reg, frontier = [fi], [fi]
    for _ in range(3):
        nxt = []
        for f in frontier:
            for c in walk_body(f.node):
                if isinstance(c, ast.Call):
                    for q in call_targets(ctx, f, c):
                        g = prog.functions.get(q)
                        if g is not None and g.module.name == "writer" and g not in reg and g.qual != "writer.TdmsWriter.write_segment" \
                                and not (g.cls is not None and g.name == "__init__"):
                            reg.append(g)
                            nxt.append(g)
        frontier = nxt
    sites = {n: [] for n in classes}

    _bind_memo = {}

    def bindings_of(f):
        """parameter -> caller argument (canonical, in the caller's terms), for helpers with one call site in the region"""
        if f.qual in _bind_memo:
            return _bind_memo[f.qual]
        out = _bind_memo.setdefault(f.qual, {})
        for g in reg:
            for c in calls_to(prog, g, f.qual, g.cls):
                sg = Sym(prog, g, g.cls, inline=False)
                e2, _ = sg.env_at(c)
                for p in f.params:
                    a = call_arg(prog, c, f, p, sg, e2)
                    if a is not None:
                        out[p] = (g, a, e2)
        return out
    for f in reg:
        sf = Sym(prog, f, f.cls, inline=False)
        for c in walk_body(f.node):
            if isinstance(c, ast.Call) and isinstance(c.func, (ast.Name, ast.Attribute)):
                k = prog.resolve_class(f.module, c.func)
                for n, ci in classes.items():
                    if k is ci:
                        env, guards = sf.env_at(c)
                        sites[n].append((f, c, sf, env))
    for need in classes:
        if not sites[need]:
            R.violation("writer.TdmsWriter.defragment::%s" % need, fi.where(), "%s is never written" % need)

    def arg(site, cls_name, pname):
        f, c, sf, env = site
        init = prog.lookup(classes[cls_name], "__init__")[2]
        return call_arg(prog, c, init, pname, sf, env)

    def loops_of(site):
        f, c, sf, env = site
        return [(resolve_params(it, f)[0], bv) for it, bv in env.get("<iter>", ())]

    def ctor_bindings(k):
        """field of a helper class -> (constructing function, constructor argument in its terms, its env), for a class constructed
        at one place in the region"""
        from .region import ctor_fields
        key = ("ctor", k.qual)
        if key in _bind_memo:
            return _bind_memo[key]
        out = _bind_memo.setdefault(key, {})
        init = k.methods.get("__init__")
        if init is None:
            return out
        cf = {fld: pn for _pos, (fld, pn) in ctor_fields(k).items()}
        for g in reg:
            sg = None
            for c in walk_body(g.node):
                if isinstance(c, ast.Call) and isinstance(c.func, (ast.Name, ast.Attribute)) and prog.resolve_class(g.module, c.func) is k:
                    sg = sg or Sym(prog, g, g.cls, inline=False)
                    e2, _ = sg.env_at(c)
                    for fld, pn in cf.items():
                        a = call_arg(prog, c, init, pn, sg, e2)
                        if a is not None:
                            out[fld] = (g, a, e2)
        return out

    def resolve_params(v, f, _depth=0):
        """replace parameters of a helper by the caller's arguments, and fields of a helper object by the arguments it was
        constructed with; returns (value, loops of the call site)"""
        extra = []
        if v is None or _depth > 6:
            return v, extra
        if f.cls is not None and f.cls is not fi.cls and f.cls.qual not in ("writer.RootObject", "writer.GroupObject", "writer.ChannelObject"):
            for fld, (g, a, e2) in ctor_bindings(f.cls).items():
                if find(v, ("self", fld)):
                    a2, _more = resolve_params(a, g, _depth + 1) if g is not fi else (a, [])
                    v = subst(v, ("self", fld), a2)
        b = bindings_of(f) if f is not fi else {}
        for p, (g, a, e2) in b.items():
            if find(v, ("param", p)):
                v = subst(v, ("param", p), a)
                here = [(resolve_params(it, g, _depth + 1)[0], bv) for it, bv in e2.get("<iter>", ())]
                if g is not fi:
                    v, more = resolve_params(v, g, _depth + 1)
                    here = more + here
                if len(here) > len(extra):
                    extra = here
        return v, extra

    def is_src(x):
        return x == SRC or (x[0] == "param" and False)
    if sites["RootObject"]:
        st = sites["RootObject"][0]
        pv, _x = resolve_params(arg(st, "RootObject", "properties"), st[0])
        R.check(pv == ("attr", SRC, "properties"), "writer.TdmsWriter.defragment::RootObject(file.properties)", st[0].where(st[1]),
                "root properties copied", "RootObject(properties=%s)" % (show(alpha(pv))[:80] if pv else None))
    G = C = None
    if sites["GroupObject"]:
        st = sites["GroupObject"][0]
        gname, x1 = resolve_params(arg(st, "GroupObject", "group"), st[0])
        gprops, x2 = resolve_params(arg(st, "GroupObject", "properties"), st[0])
        loops = x1 + loops_of(st)
        gl = [(it, bv) for it, bv in loops if match(("method", "groups", W("s"), (), ()), it) is not None]
        ok = False
        if gl:
            it, bv = gl[-1]
            its = it[2]
            ok = its == SRC and gname == ("attr", bv, "name") and gprops == ("attr", bv, "properties")
        R.check(ok, "writer.TdmsWriter.defragment::GroupObject(group.name, group.properties)", st[0].where(st[1]),
                "group name and properties copied for each group of file.groups()", "GroupObject(%s, %s) in loops %s" % (
                    show(alpha(gname))[:60] if gname else None, show(alpha(gprops))[:60] if gprops else None, [show(alpha(i))[:40] for i, _b in loops]))
    if sites["ChannelObject"]:
        st = sites["ChannelObject"][0]
        vals = {}
        extra = []
        for p in ("group", "channel", "data", "properties"):
            vals[p], x = resolve_params(arg(st, "ChannelObject", p), st[0])
            if len(x) > len(extra):
                extra = x
        loops = extra + loops_of(st)
        cl = [(it, bv) for it, bv in loops if match(("method", "channels", W("g"), (), ()), it) is not None]
        gl = [(it, bv) for it, bv in loops if match(("method", "groups", W("s"), (), ()), it) is not None]
        ok = okd = False
        if cl and gl:
            (cit, cbv), (git, gbv) = cl[-1], gl[-1]
            ok = cit[2] == gbv and vals["group"] == ("attr", gbv, "name") and vals["channel"] == ("attr", cbv, "name") and vals["properties"] == ("attr", cbv, "properties")
            d = vals["data"]
            m = match(("method", "read_data", cbv, (), W("kws")), d) if d is not None else None
            okd = m is not None and dict(m["kws"]).get("scaled") == ("const", False) and set(dict(m["kws"])) == {"scaled"}
        R.check(ok, "writer.TdmsWriter.defragment::ChannelObject(group.name, channel.name, data, channel.properties)", st[0].where(st[1]),
                "channel written under its own group/name with its own properties", "ChannelObject(%s)" % ", ".join("%s=%s" % (k, show(alpha(v))[:50] if v else None) for k, v in vals.items()))
        R.check(okd, "writer.TdmsWriter.defragment::raw channel data", st[0].where(st[1]), "channel.read_data(scaled=False): the whole raw channel",
                "the data written is `%s`, not the complete raw channel data: scaled values would be stored next to the copied scaling properties" % (
                    show(alpha(vals["data"]))[:100] if vals["data"] is not None else None))
    # every group and every channel is emitted in every iteration of its loop (no filter), and what is emitted is written
    ws_q = "writer.TdmsWriter.write_segment"
    for name, label, meth in (("GroupObject", "group", "groups"), ("ChannelObject", "channel", "channels")):
        if not sites[name]:
            continue
        init_q = prog.lookup(classes[name], "__init__")[2].qual
        ok = False
        where = fi.where()
        for f in reg:
            cfg = ctx.cfg(f)
            for loop in [n for n in walk_body(f.node) if isinstance(n, ast.For) and isinstance(n.iter, ast.Call) and isinstance(n.iter.func, ast.Attribute) and n.iter.func.attr == meth]:
                heads = cfg.where(lambda n: n.kind == "for" and n.ast is loop)
                w = set(must_call_nodes(ctx, f, cfg, {init_q}))
                good = bool(w)
                for h in heads:
                    starts = [m for m, k in h.succ if k == "loop" and m not in w]
                    r = cfg.reach(starts, avoid=lambda n: n in w, follow_exc=False) if starts else set()
                    if h in r:
                        good = False
                ok = ok or good
                where = f.where(loop)
        R.check(ok, "writer.TdmsWriter.defragment::every %s written" % label, where,
                "each iteration over the source's %ss writes the %s object" % (label, label),
                "a %s of the source can be skipped (its object is written only on some paths, e.g. together with its first channel): groups "
                "without channels and their properties would be missing from the copy" % label if label == "group" else
                "a channel of the source can be skipped")
    # what is constructed reaches write_segment: directly as its argument, or yielded/returned by a helper whose results the caller writes
    written = True
    for name, lst in sites.items():
        for f, c, sf, env in lst:
            from .region import call_reaches
            direct = any(isinstance(x, ast.Call) and x is not c and call_reaches(ctx, f, x, {ws_q}) and any(y is c for y in ast.walk(x))
                         for x in walk_body(f.node))
            if direct:
                continue
            handed = any((isinstance(x, (ast.Yield, ast.Return)) and x.value is not None and any(y is c for y in ast.walk(x.value))) for x in ast.walk(f.node))
            if not handed:
                written = False
    loop_writes = False
    cfg = ctx.cfg(fi)
    for loop in [n for n in walk_body(fi.node) if isinstance(n, ast.For)]:
        tv = {x.id for x in ast.walk(loop.target) if isinstance(x, ast.Name)}
        wn = cfg.where(lambda n: any(any(t.qual == ws_q for t, _k in resolve_call(prog, fi, fi.cls, x)) and (tv & {y.id for y in ast.walk(x) if isinstance(y, ast.Name)})
                                     for x in node_calls(n)))
        if wn:
            loop_writes = True
    any_indirect = any(not any(isinstance(x, ast.Call) and x is not c and call_reaches(ctx, f, x, {ws_q}) and any(y is c for y in ast.walk(x))
                               for x in walk_body(f.node)) for lst in sites.values() for f, c, sf, env in lst)
    R.check(written and (loop_writes or not any_indirect), "writer.TdmsWriter.defragment::constructed objects are written", fi.where(),
            "every constructed object is handed to write_segment", "an object is constructed but not handed to write_segment")
    # root first
    if sites["RootObject"] and sites["GroupObject"]:
        rf, rc = sites["RootObject"][0][:2]
        gf, gc = sites["GroupObject"][0][:2]
        if rf is gf:
            cfg = ctx.cfg(rf)
            rn = cfg.where(lambda n: any(x is rc for x in node_calls(n)))
            gn = cfg.where(lambda n: any(x is gc for x in node_calls(n)))
            R.check(bool(rn) and all(cfg.dominated_by(x, lambda n: n in rn)[0] for x in gn), "writer.TdmsWriter.defragment::root first", rf.where(rc),
                    "root object written before groups", "root object is not written first")
        else:
            R.undecided("writer.TdmsWriter.defragment::root first", fi.where(), "root and group objects are produced in different functions")
