"""BL5 (length fields = bytes that follow), BL5g (writer/reader field grammar), BL6 (index twin),
PO1 (parents first, written-state updated after the write), WT1 (ToC flags), UC1 (codec agreement):
properties C08, C07, C10."""
import ast
import struct

from .registry import rule
from .core import call_name, dotted, walk_shallow, walk_body, unparse, AnchorMissing
from .cfg import node_calls


def _type_size(prog, mod, name):
    r = prog.resolve_name(mod, name)
    if r and r[0] == "class":
        if r[1].name == "Bytes":
            return "bytes"
        s = prog.class_const(r[1], "size")
        return s
    return None


def _defs(fi, name):
    return [n.value for n in walk_body(fi.node) if isinstance(n, ast.Assign) and any(isinstance(t, ast.Name) and t.id == name for t in n.targets)]


def _elem_class(fi, e):
    """class name constructed by list element e (a ctor call or a name defined by one)"""
    if isinstance(e, ast.Call) and isinstance(e.func, ast.Name):
        return e.func.id, e
    if isinstance(e, ast.Name):
        ds = _defs(fi, e.id)
        if len(ds) == 1 and isinstance(ds[0], ast.Call) and isinstance(ds[0].func, ast.Name):
            return ds[0].func.id, ds[0]
    return None, None


@rule("BL5", "every length field the writer emits equals the bytes that follow it", floor=14)
def bl5(ctx, R):
    prog = ctx.prog
    wmod = prog.module("writer")
    # ---- (a) string prefix
    fi = prog.func("types.String.__init__")
    enc_names = {}
    for n in walk_body(fi.node):
        if isinstance(n, ast.Assign) and isinstance(n.targets[0], ast.Name) and isinstance(n.value, ast.Call) \
                and isinstance(n.value.func, ast.Attribute) and n.value.func.attr == "encode":
            enc_names[n.targets[0].id] = n
    ok = False
    detail = "self.bytes = pack('<L', len(X)) + X with X the encoded content"
    for n in walk_body(fi.node):
        if isinstance(n, ast.Assign) and any(isinstance(t, ast.Attribute) and t.attr == "bytes" for t in n.targets) \
                and isinstance(n.value, ast.BinOp) and isinstance(n.value.op, ast.Add):
            left, right = n.value.left, n.value.right
            ldefs = _defs(fi, left.id) if isinstance(left, ast.Name) else [left]
            for ld in ldefs:
                if isinstance(ld, ast.Call) and call_name(ld) in ("_struct_pack", "struct.pack") and len(ld.args) == 2:
                    fmt = prog.try_fold(ld.args[0], fi.module)
                    arg = ld.args[1]
                    measured = arg.args[0].id if isinstance(arg, ast.Call) and call_name(arg) == "len" and arg.args and isinstance(arg.args[0], ast.Name) else None
                    appended = right.id if isinstance(right, ast.Name) else None
                    ok = fmt == "<L" and measured is not None and measured == appended and measured in enc_names
                    detail = "format %r, len(%s) prefixed to %s%s" % (fmt, measured, appended, "" if measured in enc_names else " (not the encoded bytes)")
    R.check(ok, "types.String.__init__::length prefix", fi.where(), detail,
            "the 4-byte length prefix of a string does not measure the encoded bytes appended after it (%s): non-ASCII text gets a wrong length" % detail)
    # ---- (b) raw data index length
    fi = prog.func("writer.TdmsSegment.raw_data_index")
    cfg = ctx.cfg(fi)
    from .rules_resource import _controlling_tests
    n_ret = 0
    for rn in cfg.where(lambda n: n.kind == "return" and isinstance(n.ast.value, (ast.List, ast.Name))):
        lst = rn.ast.value
        if isinstance(lst, ast.Name):
            ds = _defs(fi, lst.id)
            if len(ds) != 1 or not isinstance(ds[0], ast.List):
                R.undecided("writer.TdmsSegment.raw_data_index::return %s" % lst.id, fi.where(rn.ast), "returned list is built incrementally")
                continue
            # account for later appends to that list
            extra = [c.args[0] for c in walk_body(fi.node) if isinstance(c, ast.Call) and call_name(c) == lst.id + ".append" and c.args]
            elts = list(ds[0].elts) + extra
            incremental = bool(extra)
        else:
            elts = list(lst.elts)
            incremental = False
        if not elts:
            continue
        cname, ctor = _elem_class(fi, elts[0])
        if cname == "Bytes":
            v = prog.try_fold(ctor.args[0], wmod) if ctor.args else None
            R.check(v == b"\xff\xff\xff\xff", "writer.TdmsSegment.raw_data_index::no-data header", fi.where(rn.ast),
                    "objects without raw data get header 0xFFFFFFFF", "no-data header is %r" % (v,))
            n_ret += 1
            continue
        if cname != "Uint32" or not ctor.args:
            R.undecided("writer.TdmsSegment.raw_data_index::return", fi.where(rn.ast), "first element is not a Uint32 length literal")
            continue
        k = prog.try_fold(ctor.args[0], wmod)
        sizes = []
        for e in elts[1:]:
            cn, _ = _elem_class(fi, e)
            sizes.append(_type_size(prog, wmod, cn) if cn else None)
        tests = _controlling_tests(cfg, rn)
        is_string_path = any("String" in unparse(t.ast) and "data_type" in unparse(t.ast) for t in tests)
        label = "string path" if is_string_path else "numeric path"
        key = "writer.TdmsSegment.raw_data_index::length literal (%s)" % label
        n_ret += 1
        if incremental:
            # one literal for a list that grows on some path: check the longest and the shortest
            base = [s for s in sizes[:len(ds[0].elts) - 1]]
            R.check(False if None in sizes else (k == 4 + sum(base) and k == 4 + sum(sizes)), key, fi.where(rn.ast),
                    "length %r matches on every path" % k,
                    "length literal %r is used for index lists of %s bytes (+4): on the path that appends further fields the declared length is wrong" % (
                        k, sorted({sum(base), sum(sizes)})))
            continue
        if None in sizes or "bytes" in sizes:
            R.undecided(key, fi.where(rn.ast), "element sizes not all known: %s" % sizes)
            continue
        R.check(k == 4 + sum(sizes), key, fi.where(rn.ast), "length %r == 4 + %s" % (k, "+".join(str(s) for s in sizes)),
                "raw data index declares length %r but 4 + %s = %d bytes make up the index" % (k, "+".join(str(s) for s in sizes), 4 + sum(sizes)))
        if is_string_path:
            last = elts[-1]
            cn, c2 = _elem_class(fi, last)
            dep = unparse(c2.args[0]) if c2 is not None and c2.args else ""
            src = dep
            if c2 is not None and c2.args and isinstance(c2.args[0], ast.Name):
                src = " ".join(unparse(d) for d in _defs(fi, c2.args[0].id))
            R.check(cn == "Uint64" and "object_data_size" in src, key + " total size", fi.where(rn.ast),
                    "string index ends with the total data size from object_data_size", "string index does not end with Uint64(object_data_size(...))")
        else:
            R.check(len(elts) == 4, key + " fields", fi.where(rn.ast), "type, dimension, number of values",
                    "numeric raw data index has %d fields" % (len(elts) - 1))
    if n_ret < 3:
        raise AnchorMissing("writer.TdmsSegment.raw_data_index: three return shapes (found %d)" % n_ret)
    # number of values is len(obj.data) of the same obj whose data is written
    nv = [d for d in _defs(fi, "num_values")]
    R.check(any("len(obj.data)" in unparse(d) for d in nv), "writer.TdmsSegment.raw_data_index::number of values", fi.where(),
            "value count is len(obj.data)", "the declared number of values is not len(obj.data)")
    # ---- (c) lead-in arithmetic
    fi = prog.func("writer.TdmsSegment.leadin")
    appends = [c for c in walk_body(fi.node) if isinstance(c, ast.Call) and isinstance(c.func, ast.Attribute) and c.func.attr == "append" and c.args]
    appends.sort(key=lambda c: (c.lineno, c.col_offset))
    classes = []
    for c in appends:
        cn, ctor = _elem_class(fi, c.args[0])
        classes.append((cn, ctor))
    widths = [(4 if cn == "Bytes" else _type_size(prog, wmod, cn)) for cn, _ in classes]
    R.check(widths == [4, 4, 4, 8, 8], "writer.TdmsSegment.leadin::field widths", fi.where(),
            "tag, ToC, version, next segment offset, raw data offset = 4+4+4+8+8 bytes (reader: 28-byte lead-in, 'lQQ')",
            "lead-in fields have widths %s; the format (and the reader) expects 4,4,4,8,8" % widths)
    if len(classes) >= 5:
        def src_of(ctor):
            a = ctor.args[0] if ctor is not None and ctor.args else None
            if isinstance(a, ast.Name):
                ds = _defs(fi, a.id)
                return ds[0] if len(ds) == 1 else a
            return a
        nso, rdo = src_of(classes[3][1]), src_of(classes[4][1])
        ms = fi.params[2] if len(fi.params) > 2 else "metadata_size"
        ok_nso = isinstance(nso, ast.BinOp) and isinstance(nso.op, ast.Add) and {unparse(nso.left), unparse(nso.right)} == {ms, "self._data_size()"}
        R.check(ok_nso, "writer.TdmsSegment.leadin::next segment offset", fi.where(),
                "next segment offset = metadata_size + self._data_size()",
                "next segment offset is `%s`, not metadata_size + self._data_size(): the lead-in does not describe the bytes written" % (unparse(nso) if nso is not None else None))
        R.check(isinstance(rdo, ast.Name) and rdo.id == ms, "writer.TdmsSegment.leadin::raw data offset", fi.where(),
                "raw data offset = metadata_size", "raw data offset is `%s`, not the metadata size" % (unparse(rdo) if rdo is not None else None))
    fi = prog.func("writer.TdmsSegment.write")
    md_calls = [c for c in walk_body(fi.node) if isinstance(c, ast.Call) and call_name(c) == "self.metadata"]
    R.check(len(md_calls) == 1, "writer.TdmsSegment.write::metadata serialised once", fi.where(),
            "the bytes measured are the bytes written", "metadata() is called %d times: the measured and the written metadata can differ" % len(md_calls))
    md_name = None
    for n in walk_body(fi.node):
        if isinstance(n, ast.Assign) and n.value in md_calls and isinstance(n.targets[0], ast.Name):
            md_name = n.targets[0].id
    size_defs = _defs(fi, "metadata_size")
    ok_size = md_name is not None and any(isinstance(d, ast.Call) and call_name(d) == "sum" and md_name in [x.id for x in ast.walk(d) if isinstance(x, ast.Name)]
                                          and ".bytes" in unparse(d) and "len(" in unparse(d) for d in size_defs)
    R.check(ok_size, "writer.TdmsSegment.write::metadata size", fi.where(), "metadata_size = sum(len(v.bytes)) over the list that is written",
            "metadata_size is not the summed byte length of the metadata list that is written")
    writes = [c for c in walk_body(fi.node) if isinstance(c, ast.Call) and (call_name(c) in ("file.write", "self._write_data"))]
    writes.sort(key=lambda c: c.lineno)
    order = []
    for c in writes:
        t = unparse(c)
        order.append("data" if "_write_data" in t else ("leadin" if "leadin" in t else ("metadata" if (md_name and md_name in t) else "?")))
    R.check(order == ["leadin", "metadata", "data"], "writer.TdmsSegment.write::write order", fi.where(),
            "lead-in, metadata, raw data", "segment parts are written in the order %s" % order)
    # ---- (d) declared data size = written data size
    ds_f = prog.func("writer.TdmsSegment._data_size")
    wd_f = prog.func("writer.TdmsSegment._write_data")
    rdi = prog.func("writer.TdmsSegment.raw_data_index")

    def loop_pred(f):
        for n in walk_body(f.node):
            if isinstance(n, ast.For) and dotted(n.iter) == "self.objects":
                for s in n.body:
                    if isinstance(s, ast.If):
                        return unparse(s.test).replace(n.target.id, "<obj>") if isinstance(n.target, ast.Name) else unparse(s.test)
                return "<unconditional>"
        return None
    p1, p2 = loop_pred(ds_f), loop_pred(wd_f)
    p3 = None
    for s in rdi.node.body:
        if isinstance(s, ast.If):
            p3 = unparse(s.test).replace(rdi.params[1], "<obj>")
            break
    R.check(p1 is not None and p1 == p2, "writer.TdmsSegment._data_size/_write_data::same objects", ds_f.where(),
            "declared and written data select objects with the same predicate `%s` over self.objects in the same order" % p1,
            "declared size sums objects selected by `%s`, data is written for objects selected by `%s`" % (p1, p2))
    R.check(p3 == p1, "writer.TdmsSegment.raw_data_index::same predicate", rdi.where(),
            "the raw data index is present for exactly the objects whose data is written",
            "the raw data index uses `%s` to decide whether an object has data, the data writer `%s`" % (p3, p1))
    ods = prog.func("writer.object_data_size")
    wsv = prog.func("writer.write_string_values")
    # string branch of object_data_size
    sbranch = None
    for s in ods.node.body:
        if isinstance(s, ast.If) and "String" in unparse(s.test):
            sbranch = s
    if sbranch is None:
        raise AnchorMissing("writer.object_data_size: String branch")
    def encoding_of(f, scope_stmts, name):
        """How local `name` is produced: ('direct', codec, fallback-exception) for
        [s.encode(C) for s in X] with an except-fallback to X, ('helper', qual, shape-of-helper) when a
        module-level helper does it, else None."""
        for st in scope_stmts:
            for n in ast.walk(st):
                if isinstance(n, ast.Try) and n.body and isinstance(n.body[0], ast.Assign) and any(
                        isinstance(t, ast.Name) and t.id == name for t in n.body[0].targets):
                    v = n.body[0].value
                    codec = None
                    for x in ast.walk(v):
                        if isinstance(x, ast.Call) and isinstance(x.func, ast.Attribute) and x.func.attr == "encode" and x.args:
                            codec = prog.try_fold(x.args[0], f.module)
                    h = n.handlers[0] if n.handlers else None
                    fb = unparse(h.type) if h is not None and h.type is not None else None
                    per_value = isinstance(v, (ast.ListComp, ast.GeneratorExp)) and codec is not None
                    return ("direct", codec, fb, per_value)
                if isinstance(n, ast.Assign) and any(isinstance(t, ast.Name) and t.id == name for t in n.targets) and isinstance(n.value, ast.Call):
                    r = prog.resolve_expr(f.module, n.value.func)
                    if r and r[0] == "func":
                        h = r[1]
                        rets_h = [x for x in walk_body(h.node) if isinstance(x, ast.Return) and x.value is not None]
                        nm = [x.value.id for x in rets_h if isinstance(x.value, ast.Name)]
                        inner = encoding_of(h, h.node.body, nm[0]) if nm else None
                        if inner is None and rets_h and ".encode(" in unparse(h.node):
                            inner = ("direct", "?", None, False)
                        return ("helper", h.qual, inner)
        return None

    def all_encoding_names(f, scope_stmts, expr):
        out = []
        for nm in {x.id for x in ast.walk(expr) if isinstance(x, ast.Name)}:
            e = encoding_of(f, scope_stmts, nm)
            if e is not None:
                out.append(e)
        return out
    rets = [n for st in sbranch.body for n in walk_shallow(st) if isinstance(n, ast.Return)]
    enc_ods = None
    for r in rets:
        txt = unparse(r.value)
        encs = all_encoding_names(ods, sbranch.body, r.value)
        enc_ods = encs[0] if encs else enc_ods
        four = any(isinstance(x, ast.Constant) and x.value == 4 for x in ast.walk(r.value))
        R.check(bool(encs) and "len(" in txt and four, "writer.object_data_size::string size `%s`" % txt[:50], ods.where(r),
                "4 bytes offset + len(encoded string) per value",
                "the declared size of string data (`%s`) is not computed from the encoded (UTF-8) byte strings plus a 4-byte offset each, which is "
                "what write_string_values writes: multi-byte characters make the declared size differ from the bytes written" % txt)
    # write side: the strings written are produced the same way
    enc_wsv = None
    for n in walk_body(wsv.node):
        if isinstance(n, ast.For) and isinstance(n.iter, ast.Name):
            e = encoding_of(wsv, wsv.node.body, n.iter.id)
            if e is not None:
                enc_wsv = e

    def canon(e):
        if e is None:
            return None
        if e[0] == "helper":
            return ("helper", e[1])
        return e
    good = enc_ods is not None and canon(enc_ods) == canon(enc_wsv)
    if good and enc_ods[0] == "direct":
        good = enc_ods[1] == "utf-8" and enc_ods[3]
    if good and enc_ods[0] == "helper":
        inner = enc_ods[2]
        good = inner is not None and inner[0] == "direct" and inner[1] in ("utf-8", "?") and (inner[3] or inner[1] == "?")
    R.check(good, "writer.object_data_size/write_string_values::same encoding", ods.where(),
            "both sides obtain the byte strings the same way: str.encode('utf-8') per value, falling back to the given bytes",
            "size computation and writing encode string values differently, or not per value with UTF-8 (%s vs %s)" % (enc_ods, enc_wsv))
    helper_funcs = [prog.functions[e[1]] for e in (enc_ods, enc_wsv) if e is not None and e[0] == "helper" and e[1] in prog.functions]
    for f in [ods, wsv] + helper_funcs:
        bad = [x for x in ast.walk(f.node) if (isinstance(x, ast.Attribute) and dotted(x) in ("np.char", "np.str_", "np.bytes_", "np.unicode_"))
               or (isinstance(x, ast.Call) and call_name(x) in ("np.char.encode", "np.char.str_len", "np.asarray") and "str" in unparse(x))]
        R.check(not bad, "%s::no fixed-width NumPy strings" % f.qual, f.where(),
                "values are encoded one by one", "string values pass through a fixed-width NumPy string array (`%s`), which drops trailing NUL "
                "characters and measures characters, not bytes" % (unparse(bad[0])[:60] if bad else ""))
    offs = [c for c in walk_body(wsv.node) if isinstance(c, ast.Call) and isinstance(c.func, ast.Name) and c.func.id == "Uint32"]
    R.check(len(offs) == 1 and _type_size(prog, wmod, "Uint32") == 4, "writer.write_string_values::4-byte offsets", wsv.where(),
            "one Uint32 end offset per value", "string offsets are not written as one Uint32 per value")
    rest = [s for s in ods.node.body if s is not sbranch and isinstance(s, ast.Return)]
    R.check(len(rest) == 1 and unparse(rest[0].value).replace(" ", "") in ("data_type.size*len(data_values)", "len(data_values)*data_type.size"),
            "writer.object_data_size::fixed-size types", ods.where(), "size * number of values",
            "fixed-size data is declared as `%s`" % (unparse(rest[0].value) if rest else None))


@rule("BL6", "the index file is the data file minus raw data with the tag replaced", floor=5)
def bl6(ctx, R):
    prog = ctx.prog
    seg = prog.cls("writer.TdmsSegment")
    uses = []
    for name, fi in seg.methods.items():
        for n in walk_body(fi.node):
            if isinstance(n, ast.Attribute) and n.attr == "is_index_file" and isinstance(n.ctx, ast.Load):
                uses.append((fi, n))
    if not uses:
        raise AnchorMissing("writer.TdmsSegment: uses of is_index_file")
    for fi, n in uses:
        key = "%s::is_index_file" % fi.qual
        if fi.name == "leadin":
            # must be the test of the tag IfExp
            ok = False
            for x in walk_body(fi.node):
                if isinstance(x, ast.IfExp) and x.test is n:
                    a, b = prog.try_fold(x.body, fi.module), prog.try_fold(x.orelse, fi.module)
                    ok = (a, b) == (b"TDSh", b"TDSm")
                if isinstance(x, ast.IfExp) and isinstance(x.test, ast.UnaryOp) and x.test.operand is n:
                    a, b = prog.try_fold(x.body, fi.module), prog.try_fold(x.orelse, fi.module)
                    ok = (a, b) == (b"TDSm", b"TDSh")
            R.check(ok, key + " selects the tag", fi.where(n), "TDSh for the index file, TDSm for the data file",
                    "is_index_file influences the lead-in other than by selecting TDSh/TDSm")
        elif fi.name == "write":
            ok = False
            for x in walk_body(fi.node):
                if isinstance(x, ast.If) and any(y is n for y in ast.walk(x.test)):
                    body_calls = [call_name(c) for s in x.body for c in walk_shallow(s) if isinstance(c, ast.Call)]
                    neg = isinstance(x.test, ast.UnaryOp) and isinstance(x.test.op, ast.Not)
                    ok = neg and body_calls == ["self._write_data"] and not x.orelse
            R.check(ok, key + " guards the raw data", fi.where(n), "raw data is written iff this is not the index file",
                    "is_index_file influences write() other than by skipping the raw data")
        elif fi.name == "__init__":
            continue
        else:
            R.violation(key, fi.where(n), "is_index_file influences %s: lead-in offsets / metadata of the index file would differ from the data "
                        "file's, but the index must be byte-identical apart from the tag and the missing raw data" % fi.name)
    ws = prog.func("writer.TdmsWriter.write_segment")
    ctors = [c for c in walk_body(ws.node) if isinstance(c, ast.Call) and isinstance(c.func, ast.Name) and c.func.id == "TdmsSegment"]
    if len(ctors) != 2:
        # a different scheme for producing the index file
        bad = [c for c in ast.walk(prog.module("writer").tree) if isinstance(c, ast.Call) and isinstance(c.func, ast.Attribute)
               and c.func.attr == "replace" and c.args and isinstance(prog.try_fold(c.args[0], prog.module("writer")), bytes)]
        if bad:
            R.violation("writer::tag replaced by substring replacement", "%s:%d" % (prog.module("writer").relpath, bad[0].lineno),
                        "`%s` rewrites every occurrence of the tag bytes in serialised metadata, including occurrences inside object names and "
                        "property values" % unparse(bad[0])[:80])
        raise AnchorMissing("writer.TdmsWriter.write_segment: two TdmsSegment constructions (data and index), found %d" % len(ctors))
    a, b = sorted(ctors, key=lambda c: c.lineno)
    kw_a = {k.arg: unparse(k.value) for k in a.keywords}
    kw_b = {k.arg: unparse(k.value) for k in b.keywords}
    same_objs = a.args and b.args and unparse(a.args[0]) == unparse(b.args[0])
    R.check(bool(same_objs) and kw_a.get("version") == kw_b.get("version"), "writer.TdmsWriter.write_segment::same objects and version", ws.where(a),
            "both segments are built from the same object list and version",
            "data and index segments are built from different inputs (%s / %s)" % (unparse(a), unparse(b)))
    R.check(kw_b.get("is_index_file") == "True" and "is_index_file" not in kw_a, "writer.TdmsWriter.write_segment::index flag", ws.where(b),
            "second segment is the index twin", "index flag not set on exactly the second segment")
    wcalls = sorted([c for c in walk_body(ws.node) if isinstance(c, ast.Call) and call_name(c) == "segment.write"], key=lambda c: c.lineno)
    tgt = [unparse(c.args[0]) for c in wcalls if c.args]
    R.check(tgt == ["self._file", "self._index_file"], "writer.TdmsWriter.write_segment::streams", ws.where(),
            "data segment -> data stream, index segment -> index stream", "segments are written to %s" % tgt)
    bad = [c for c in ast.walk(prog.module("writer").tree) if isinstance(c, ast.Call) and isinstance(c.func, ast.Attribute)
           and c.func.attr == "replace" and c.args and isinstance(prog.try_fold(c.args[0], prog.module("writer")), bytes)]
    R.check(not bad, "writer::no byte-level tag rewriting", ws.where(), "no bytes.replace on serialised data",
            "serialised bytes are rewritten with bytes.replace")


def _key_reaches_ordering(prog, fi, key_expr):
    """sort key reaches writer._path_ordering_key (directly, through a lambda, or through a helper)"""
    if key_expr is None:
        return False
    if dotted(key_expr) == "_path_ordering_key":
        return True
    if isinstance(key_expr, ast.Lambda):
        return any(isinstance(c, ast.Call) and call_name(c) == "_path_ordering_key" for c in ast.walk(key_expr.body))
    r = prog.resolve_expr(fi.module, key_expr) if isinstance(key_expr, (ast.Name, ast.Attribute)) else None
    if r and r[0] == "func":
        return any(isinstance(c, ast.Call) and call_name(c) == "_path_ordering_key" for c in walk_body(r[1].node))
    return False


@rule("PO1", "parents are declared first and the written-state is updated only after the segment was written", floor=6)
def po1(ctx, R):
    from .region import region, nodes_reaching, cone
    from .absval import eval_simple_function
    prog = ctx.prog
    ws = prog.func("writer.TdmsWriter.write_segment")
    cfg = ctx.cfg(ws)
    reg = region(ctx, ws)
    # (1) the object list handed to the segment is sorted parents-first
    sorts = []
    for f in reg:
        for c in walk_body(f.node):
            if isinstance(c, ast.Call):
                key = next((k.value for k in c.keywords if k.arg == "key"), None)
                if (isinstance(c.func, ast.Attribute) and c.func.attr == "sort") or call_name(c) == "sorted":
                    if _key_reaches_ordering(prog, f, key):
                        sorts.append((f, c))
    if not sorts:
        R.violation("writer.TdmsWriter.write_segment::objects sorted parents-first", ws.where(), "no sort by _path_ordering_key on the way to the segment: the "
                    "object list is no longer ordered root first, then groups, so a channel can precede its group")
    else:
        f, c = sorts[0]
        R.ok("writer.TdmsWriter.write_segment::objects sorted parents-first", f.where(c), "sorted with a key that reaches _path_ordering_key")
        if f is ws and isinstance(c.func, ast.Attribute) and c.func.attr == "sort":
            lst = dotted(c.func.value)
            sn = cfg.where(lambda n: any(x is c for x in node_calls(n)))
            late = []
            for s in sn:
                after = cfg.reach([s], follow_exc=False)
                late += [n for n in after if n is not s and any(call_name(x) in (lst + ".append", lst + ".extend", lst + ".insert") for x in node_calls(n))]
            R.check(not late, "writer.TdmsWriter.write_segment::sort is the last change of the list", ws.where(c),
                    "no object is added after the parents-first sort", "objects are added to the list after it was sorted")
    pk = prog.func("writer._path_ordering_key")
    p = pk.params[0]
    ranks = {}
    for kind, facts in (("root", {p + ".is_root": True, p + ".is_group": False, p + ".is_channel": False}),
                        ("group", {p + ".is_root": False, p + ".is_group": True, p + ".is_channel": False}),
                        ("channel", {p + ".is_root": False, p + ".is_group": False, p + ".is_channel": True})):
        ranks[kind] = eval_simple_function(prog, pk, facts)
    single = all(len(v) == 1 and isinstance(next(iter(v)), (int, float)) for v in ranks.values())
    if not single:
        R.undecided("writer._path_ordering_key::root < group < channel", pk.where(), "ranks not constant: %s" % ranks)
    else:
        r_, g_, c_ = (next(iter(ranks[k])) for k in ("root", "group", "channel"))
        R.check(r_ < g_ < c_, "writer._path_ordering_key::root < group < channel", pk.where(), "ranks root=%s group=%s channel=%s" % (r_, g_, c_),
                "ordering key is not strictly increasing root < group < channel (root=%s, group=%s, channel=%s)" % (r_, g_, c_))
    # (2) written-state is updated only after the writes
    stores = cfg.where(lambda n: n.kind == "stmt" and (
        (isinstance(n.ast, ast.Assign) and any(dotted(t) == "self._root_written" for t in n.ast.targets)) or
        (isinstance(n.ast, ast.AugAssign) and dotted(n.ast.target) == "self._groups_written") or
        any(call_name(c) in ("self._groups_written.update", "self._groups_written.add") for c in node_calls(n))))
    if not stores:
        raise AnchorMissing("writer.TdmsWriter.write_segment: updates of _root_written/_groups_written")
    writes = nodes_reaching(ctx, ws, cfg, {"writer.TdmsSegment.write"})
    if not writes:
        raise AnchorMissing("writer.TdmsWriter.write_segment: calls that reach TdmsSegment.write")
    for s in stores:
        dom = any(cfg.dominated_by(s, lambda n, w=w: n is w)[0] for w in writes)
        after = cfg.reach([s], follow_exc=False)
        later_write = [w for w in writes if w in after and w is not s]
        R.check(dom and not later_write, "writer.TdmsWriter.write_segment::`%s` after the writes" % unparse(s.ast)[:50], ws.where(s.ast),
                "state is updated after data and index segments were written",
                "the record of which parents were already declared is updated before the segment is written: if this call fails (unsupported "
                "property value, duplicate path) the next segment is written without root/group objects")
    # (3) implicit root / groups depend on what was already written
    roots = [c for c in walk_body(ws.node) if isinstance(c, ast.Call) and dotted(c.func) == "RootObject"]
    groups = [c for c in walk_body(ws.node) if isinstance(c, ast.Call) and dotted(c.func) == "GroupObject"]
    if not roots or not groups:
        R.undecided("writer.TdmsWriter.write_segment::implicit parents", ws.where(), "RootObject()/GroupObject() are not created in write_segment itself")
    else:
        from .region import _enclosing_tests
        rt = _enclosing_tests(ws, roots[0])
        rc = set()
        for t in rt:
            rc |= cone(ctx, ws, t)
        if not rt:
            R.violation("writer.TdmsWriter.write_segment::root added only when missing", ws.where(roots[0]), "a root object is added unconditionally")
        else:
            R.check("self._root_written" in rc and ".is_root" in rc, "writer.TdmsWriter.write_segment::root added only when missing", ws.where(roots[0]),
                    "depends on _root_written and on whether a root object was given",
                    "the implicit root object does not depend on both self._root_written and the presence of a root object in the segment (depends on %s)" % sorted(x for x in rc if "root" in x))
        g = groups[0]
        gc = cone(ctx, ws, g.args[0]) if g.args else set()
        R.check("self._groups_written" in gc and (".is_channel" in gc or ".is_group" in gc), "writer.TdmsWriter.write_segment::groups added only when missing", ws.where(g),
                "implicit groups depend on the channels' groups, the groups given and _groups_written",
                "implicit group objects do not depend on self._groups_written and on the kinds of the objects in the segment")


@rule("WT1", "every written segment restates the full object list and sets kTocNewObjList", floor=2)
def wt1(ctx, R):
    prog = ctx.prog
    fi = prog.func("writer.TdmsSegment.write")
    lead = [c for c in walk_body(fi.node) if isinstance(c, ast.Call) and call_name(c) == "self.leadin"]
    if not lead:
        raise AnchorMissing("writer.TdmsSegment.write: call of self.leadin")
    toc_arg = lead[0].args[0] if lead[0].args else None
    defs = _defs(fi, toc_arg.id) if isinstance(toc_arg, ast.Name) else [toc_arg]
    need = {"kTocMetaData", "kTocRawData", "kTocNewObjList"}
    for d in defs:
        v = prog.try_fold(d, fi.module)
        R.check(isinstance(v, list) and need <= set(v) and "kTocBigEndian" not in v, "writer.TdmsSegment.write::toc flags", fi.where(d),
                "ToC = %s" % v, "a written segment's ToC flags are %s (not a constant list containing %s): metadata() always restates the complete "
                "object list, so the segment must say so, otherwise readers keep the previous segment's object order" % (
                    unparse(d) if v is None else v, sorted(need)))
    # toc is not modified between definition and use
    muts = [c for c in walk_body(fi.node) if isinstance(c, ast.Call) and isinstance(c.func, ast.Attribute) and isinstance(toc_arg, ast.Name)
            and dotted(c.func.value) == toc_arg.id and c.func.attr in ("remove", "append", "pop", "extend", "clear")]
    R.check(not muts, "writer.TdmsSegment.write::toc list unmodified", fi.where(), "flag list is a constant", "flag list is edited before use (%s)" % (unparse(muts[0]) if muts else ""))
    md = prog.func("writer.TdmsSegment.metadata")
    loop_ok = any(isinstance(n, ast.For) and dotted(n.iter) == "self.objects" for n in walk_body(md.node))
    R.check(loop_ok, "writer.TdmsSegment.metadata::all objects listed", md.where(), "metadata lists every object of the segment",
            "metadata does not iterate over all objects")


@rule("UC1", "names, property strings and string data use one codec in writer and reader", floor=4)
def uc1(ctx, R):
    prog = ctx.prog
    codecs = []
    for mname in ("types", "writer"):
        mod = prog.module(mname)
        for n in ast.walk(mod.tree):
            if isinstance(n, ast.Call) and isinstance(n.func, ast.Attribute) and n.func.attr in ("encode", "decode"):
                c = prog.try_fold(n.args[0], mod) if n.args else "<default utf-8>"
                codecs.append((mod, n, c))
    if len(codecs) < 4:
        raise AnchorMissing("encode/decode sites in types.py and writer.py (found %d)" % len(codecs))
    for mod, n, c in codecs:
        cn = (c or "").lower().replace("_", "-") if isinstance(c, str) else c
        R.check(cn in ("utf-8", "utf8", "<default utf-8>"), "%s::%s" % (mod.name, unparse(n)[:50]), "%s:%d" % (mod.relpath, n.lineno),
                "UTF-8", "codec %r differs from the UTF-8 used everywhere else: non-ASCII text would not survive a write/read cycle" % (c,))
