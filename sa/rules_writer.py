"""BL5 (length fields = bytes that follow), BL5g (writer/reader field grammar), BL6 (index twin),
PO1 (parents first, written-state updated after the write), WT1 (ToC flags), UC1 (codec agreement):
properties C08, C07, C10."""
import ast
import struct

from .registry import rule
from .core import call_name, dotted, walk_shallow, walk_body, unparse, AnchorMissing
from .cfg import node_calls
from .sem import guards_say


def _type_size(prog, mod, name):
    r = prog.resolve_name(mod, name)
    if r and r[0] == "class":
        if r[1].name == "Bytes":
            return "bytes"
        s = prog.class_const(r[1], "size")
        return s
    return None


def _defs(fi, name):
    return [n.value for n in walk_body(fi.node) if isinstance(n, ast.Assign) and any(isinstance(t, ast.Name) and t.id == name for t in n.targets)]


def _elem_class(fi, e):
    """class name constructed by list element e (a ctor call or a name defined by one)"""
    if isinstance(e, ast.Call) and isinstance(e.func, ast.Name):
        return e.func.id, e
    if isinstance(e, ast.Name):
        ds = _defs(fi, e.id)
        if len(ds) == 1 and isinstance(ds[0], ast.Call) and isinstance(ds[0].func, ast.Name):
            return ds[0].func.id, ds[0]
    return None, None


def _field_size(prog, item):
    """byte size of one serialised field given its symbolic value ('new', class qual, args, kws)"""
    if not (isinstance(item, tuple) and item and item[0] == "new"):
        return None
    ci = prog.classes.get(item[1])
    if ci is None:
        return None
    if ci.name == "Bytes":
        a = item[2][0] if item[2] else None
        if a is not None and a[0] == "const" and isinstance(a[1], bytes):
            return len(a[1])
        if a is not None and a[0] == "phi" and all(x[0] == "const" and isinstance(x[1], bytes) for x in a[2:4]) and len(a[2][1]) == len(a[3][1]):
            return len(a[2][1])
        return None
    size = prog.class_const(ci, "size")
    return size if isinstance(size, int) else None


def _subst(x, old, new):
    if x == old:
        return new
    if isinstance(x, tuple):
        return tuple(_subst(y, old, new) for y in x)
    return x


@rule("BL5", "every length field the writer emits equals the bytes that follow it", floor=12)
def bl5(ctx, R):
    from .sym import Sym, show, alpha, same, contains, collect
    prog = ctx.prog
    wmod = prog.module("writer")
    # ---- (a) string prefix:  self.bytes = pack('<L', len(X)) + X   with X the encoded content
    fi = prog.func("types.String.__init__")
    env = Sym(prog, fi).env_at_end()
    b = env.get("self.bytes")
    ok = False
    detail = "self.bytes = %s" % (show(alpha(b)) if b else None)
    if b and b[0] == "binop" and b[1] == "+" and len(b[2]) == 2:
        pre, body = b[2]
        is_enc = body[0] == "method" and body[1] == "encode"
        if pre[0] == "call" and pre[1] in ("_struct_pack", "struct.pack") and len(pre[2]) == 2 and pre[2][0] == ("const", "<L"):
            ok = is_enc and pre[2][1] == ("len", body)
    R.check(ok, "types.String.__init__::length prefix", fi.where(), "4-byte little-endian length of the encoded bytes, followed by those bytes",
            "the length prefix of a string does not measure the encoded bytes appended after it (%s): non-ASCII text gets a wrong length" % detail[:160])
    # ---- (b) raw data index length, per path
    fi = prog.func("writer.TdmsSegment.raw_data_index")
    from .sym import simplify
    import itertools
    whole = Sym(prog, fi).function_value()

    def atoms_of(v, out):
        """atomic conditions of the conditionals in v"""
        if isinstance(v, tuple) and v:
            if v[0] == "phi":
                def split(c):
                    if isinstance(c, tuple) and c and c[0] in ("and", "or"):
                        for y in c[1:]:
                            split(y)
                    elif isinstance(c, tuple) and c and c[0] == "not":
                        split(c[1])
                    elif isinstance(c, tuple) and c and c[0] == "cmp" and c[1] in ("is not", "!="):
                        split(("cmp", "is" if c[1] == "is not" else "==", c[2], c[3]))
                    elif c not in out:
                        out.append(c)
                split(v[1])
            for y in v:
                atoms_of(y, out)
        return out

    def flat_list(v):
        if isinstance(v, tuple):
            v = tuple(flat_list(y) for y in v)
            if v and v[0] == "list":
                items = []
                for it in v[1]:
                    if isinstance(it, tuple) and len(it) == 2 and it[0] == "splice" and isinstance(it[1], tuple) and it[1] and it[1][0] == "list":
                        items += list(it[1][1])
                    else:
                        items.append(it)
                return ("list", tuple(items))
        return v
    # only the conditions that shape the index (not those inside the size computation of the values)
    atoms = [a for a in atoms_of(whole, []) if not contains(a, lambda x: isinstance(x, tuple) and x and x[0] == "bv")][:5]
    paths = []
    seen_vals = set()
    for combo in itertools.product((True, False), repeat=len(atoms)):
        asg = dict(zip(atoms, combo))
        val = flat_list(simplify(whole, lambda c: asg.get(c)))
        keyv = alpha(val)
        if keyv in seen_vals:
            continue
        seen_vals.add(keyv)
        paths.append((tuple(a if t else ("not", a) for a, t in asg.items()), val, asg))
    n_ret = 0
    for guards, val, asg in paths:
        gtxt = " and ".join(show(alpha(g)) for g in guards)
        is_string_path = any(t and contains(a, lambda x: x == ("class", "types.String")) for a, t in asg.items())
        if val is not None and val[0] == "list" and any(isinstance(it, tuple) and it and it[0] == "new" and it[1] == "types.Bytes" for it in val[1][:1]):
            is_string_path = False
        if val is None or val[0] != "list":
            R.undecided("writer.TdmsSegment.raw_data_index::path [%s]" % gtxt[:60], fi.where(), "returned value is not a list literal on this path: %s" % (show(alpha(val))[:80] if val else None))
            continue
        items = val[1]
        if not items:
            continue
        first = items[0]
        n_ret += 1
        if first[0] == "new" and first[1] == "types.Bytes":
            a = first[2][0] if first[2] else None
            R.check(a == ("const", b"\xff\xff\xff\xff") and len(items) == 1, "writer.TdmsSegment.raw_data_index::no-data header", fi.where(),
                    "objects without raw data get header 0xFFFFFFFF", "no-data header is %s" % show(a))
            continue
        label = "string path" if is_string_path else "numeric path"
        key = "writer.TdmsSegment.raw_data_index::length literal (%s)" % label
        if not (first[0] == "new" and first[1] == "types.Uint32" and first[2] and first[2][0][0] == "const"):
            R.undecided(key, fi.where(), "length field is not a constant Uint32 on this path: %s" % show(first)[:80])
            continue
        k = first[2][0][1]
        sizes = [_field_size(prog, it) for it in items[1:]]
        if None in sizes:
            R.undecided(key, fi.where(), "sizes of the index fields not all known: %s" % sizes)
            continue
        R.check(k == 4 + sum(sizes), key, fi.where(), "length %r == 4 + %s" % (k, "+".join(str(x) for x in sizes)),
                "raw data index declares length %r but 4 + %s = %d bytes make up the index" % (k, "+".join(str(x) for x in sizes), 4 + sum(sizes)))
        if is_string_path:
            last = items[-1]
            R.check(last[0] == "new" and last[1] == "types.Uint64" and contains(last, lambda x: isinstance(x, tuple) and x and x[0] == "sum"),
                    key + " total size", fi.where(), "string index ends with the total data size (object_data_size)",
                    "string index does not end with the total size of the string data")
        else:
            R.check(len(items) == 4, key + " fields", fi.where(), "type, dimension, number of values", "numeric raw data index has %d fields" % (len(items) - 1))
        nv = items[3] if len(items) > 3 else None
        R.check(nv is not None and nv[0] == "new" and nv[2] and nv[2][0] == ("len", ("attr", ("param", fi.params[1]), "data")), key + " value count", fi.where(),
                "number of values is len(obj.data)", "the declared number of values is %s, not len(obj.data)" % (show(nv) if nv else None))
    if n_ret < 3:
        raise AnchorMissing("writer.TdmsSegment.raw_data_index: three return shapes (found %d)" % n_ret)
    # ---- (c) lead-in arithmetic
    fi = prog.func("writer.TdmsSegment.leadin")
    ds_f = prog.func("writer.TdmsSegment._data_size")
    DS = Sym(prog, ds_f, ds_f.cls).function_value()
    lp = Sym(prog, fi, fi.cls).function_paths()
    ms = ("param", fi.params[2] if len(fi.params) > 2 else "metadata_size")
    for guards, val, _env in lp:
        if val is None or val[0] != "list":
            R.undecided("writer.TdmsSegment.leadin::fields", fi.where(), "lead-in is not built as a list of fields: %s" % (show(val)[:80] if val else None))
            continue
        items = val[1]
        widths = [_field_size(prog, it) for it in items]
        R.check(widths == [4, 4, 4, 8, 8], "writer.TdmsSegment.leadin::field widths", fi.where(),
                "tag, ToC, version, next segment offset, raw data offset = 4+4+4+8+8 bytes (reader: 28-byte lead-in, 'lQQ')",
                "lead-in fields have widths %s; the format (and the reader) expects 4,4,4,8,8" % widths)
        if len(items) >= 5:
            nso = items[3][2][0] if items[3][0] == "new" and items[3][2] else None
            rdo = items[4][2][0] if items[4][0] == "new" and items[4][2] else None
            want = Sym(prog, fi, fi.cls)._binop("+", ms, DS)
            R.check(nso is not None and same(nso, want), "writer.TdmsSegment.leadin::next segment offset", fi.where(),
                    "next segment offset = metadata size + declared raw data size",
                    "next segment offset is `%s`, not metadata_size + self._data_size(): the lead-in does not describe the bytes written" % (show(alpha(nso))[:120] if nso else None))
            R.check(rdo == ms, "writer.TdmsSegment.leadin::raw data offset", fi.where(), "raw data offset = metadata size",
                    "raw data offset is `%s`, not the metadata size" % (show(rdo) if rdo else None))
            tag = items[0][2][0] if items[0][0] == "new" and items[0][2] else None
            FL_ = ("self", "is_index_file")
            def _flag_or_override(t_):
                # the segment's own flag, or an optional argument that overrides it when given:  flag if arg is None else arg
                if t_ == FL_:
                    return True
                return isinstance(t_, tuple) and len(t_) == 4 and t_[0] == "phi" and isinstance(t_[1], tuple) and t_[1][:2] == ("cmp", "is") and t_[1][3] == ("const", None) \
                    and t_[1][2][0] == "param" and t_[2] == FL_ and t_[3] == t_[1][2]
            tag_ok = isinstance(tag, tuple) and len(tag) == 4 and tag[0] == "phi" and _flag_or_override(tag[1]) and tag[2:] == (("const", b"TDSh"), ("const", b"TDSm"))
            if not tag_ok and isinstance(tag, tuple) and len(tag) == 4 and tag[0] == "phi" and tag[2:] == (("const", b"TDSh"), ("const", b"TDSm")) and tag[1][0] == "param":
                R.unrecognised("writer.TdmsSegment.leadin::tag", fi.where(), "the tag is selected by the parameter `%s`; what the callers pass for it was not followed" % tag[1][1])
                tag_ok = None
            if tag_ok is not None:
              R.check(tag_ok,
                    "writer.TdmsSegment.leadin::tag", fi.where(), "TDSh for the index file, TDSm for the data file", "segment tag is `%s`" % (show(tag) if tag else None))
    fi = prog.func("writer.TdmsSegment.write")
    write_fi = fi
    # the header (lead-in with the metadata size) is built in write() itself or in a private helper it calls
    from .region import region as _region
    holders = [g for g in _region(ctx, fi, depth=2) if g.cls is fi.cls and any(isinstance(c, ast.Call) and call_name(c) == "self.leadin" for c in walk_body(g.node))]
    if not holders:
        raise AnchorMissing("writer.TdmsSegment.write: call of self.leadin")
    if holders[0] is not fi:
        fi = holders[0]
    md_calls = [c for c in walk_body(fi.node) if isinstance(c, ast.Call) and call_name(c) == "self.metadata"]
    if not md_calls:
        # the metadata values come from somewhere else (a generator variant, a prepared field): which call produces them is found below
        gen_calls = [c for c in walk_body(fi.node) if isinstance(c, ast.Call) and (call_name(c) or "").startswith("self.") and "metadata" in (call_name(c) or "")]
        if len(gen_calls) == 1:
            md_calls = gen_calls
            R.ok("writer.TdmsSegment.write::metadata serialised once", fi.where(), "the metadata values are produced once, by `%s`" % call_name(gen_calls[0]))
        else:
            R.unrecognised("writer.TdmsSegment.write::metadata serialised once", fi.where(), "no call of self.metadata() where the header is built: how the metadata "
                           "values are produced was not recognised (%d candidate calls)" % len(gen_calls))
    else:
        R.check(len(md_calls) == 1, "writer.TdmsSegment.write::metadata serialised once", fi.where(),
                "the bytes measured are the bytes written", "metadata() is called %d times: the measured and the written metadata can differ" % len(md_calls))
    sy = Sym(prog, fi, fi.cls)
    env = sy.env_at_end()
    # the metadata list as the normal form of `self.metadata()` in write(): an opaque call when metadata() builds its list
    # with loops, or whatever small expression it returns
    M = ("call", "writer.TdmsSegment.metadata", (), ())
    if md_calls:
        env_m, _gm = sy.env_at(md_calls[0])
        M = sy.expr(md_calls[0], env_m)
    # the size handed to leadin()
    lead_calls = [c for c in walk_body(fi.node) if isinstance(c, ast.Call) and call_name(c) == "self.leadin"]
    if not lead_calls:
        raise AnchorMissing("writer.TdmsSegment.write: call of self.leadin")
    # evaluate the size argument in the environment before the call: re-run statements up to the call
    pre = []
    for st in fi.node.body:
        if any(x is lead_calls[0] for x in ast.walk(st)):
            break
        pre.append(st)
    env0 = sy.env_at_end(pre)
    size_arg = lead_calls[0].args[1] if len(lead_calls[0].args) > 1 else next((k.value for k in lead_calls[0].keywords if k.arg == "metadata_size"), None)
    size_val = sy.expr(size_arg, env0) if size_arg is not None else None
    want_size = None
    if size_val is not None:
        sums = collect(size_val, lambda x: isinstance(x, tuple) and x and x[0] == "sum")
        want_size = bool(sums) and sums[0][1] == ("len", ("attr", sums[0][2], "bytes")) and sums[0][3] == M and not sums[0][4] \
            and (size_val == sums[0] or size_val == ("binop", "+", tuple(sorted([("const", 0), sums[0]], key=repr))))
    joined_M = None
    if size_val is not None and not want_size:
        # len(b''.join(v.bytes for v in M)): the length of the very bytes that are written
        if size_val[0] == "len" and isinstance(size_val[1], tuple) and size_val[1] and size_val[1][0] == "method" and size_val[1][1] == "join":
            cs_ = collect(size_val[1], lambda x: isinstance(x, tuple) and x and x[0] == "comp")
            if cs_ and cs_[0][1] == ("attr", cs_[0][2], "bytes") and cs_[0][3] == M and not cs_[0][4]:
                want_size = True
                joined_M = size_val[1]
    if not want_size and size_val is not None and not collect(size_val, lambda x: isinstance(x, tuple) and x and x[0] in ("sum", "len")):
        R.unrecognised("writer.TdmsSegment.write::metadata size", fi.where(), "the metadata size handed to leadin() is `%s`: not recognised as a measured length" % show(alpha(size_val))[:120])
    else:
        R.check(bool(want_size), "writer.TdmsSegment.write::metadata size", fi.where(), "metadata_size = summed byte length of the metadata values that are written",
                "the metadata size handed to leadin() is `%s`, not the summed byte length of the metadata list" % (show(alpha(size_val))[:120] if size_val else None))
    # the writes, in order
    if fi is not write_fi:
        # header built by a helper: which of its results write() serialises first is read in write()'s own normal form
        fi = write_fi
        sy = Sym(prog, fi, fi.cls)
    cfg = ctx.cfg(fi)
    wcalls = sorted([c for c in walk_body(fi.node) if isinstance(c, ast.Call) and call_name(c) == "%s.write" % fi.params[1]], key=lambda c: (c.lineno, c.col_offset))
    kinds = []
    for c in wcalls:
        pre = []
        for st in fi.node.body:
            if any(x is c for x in ast.walk(st)):
                break
            pre.append(st)
        v = sy.expr(c.args[0], sy.env_at_end(pre)) if c.args else None
        comps = collect(v, lambda x: isinstance(x, tuple) and x and x[0] == "comp") if v else []
        kind = "?"
        if v is not None and joined_M is not None and v == joined_M:
            kind = "metadata"
        elif v and v[0] == "method" and v[1] == "join" and comps and comps[0][1] == ("attr", comps[0][2], "bytes"):
            src = comps[0][3]
            if src == M:
                kind = "metadata"
            elif src[0] == "call" and src[1] == "writer.TdmsSegment.leadin" or (src[0] == "list" and len(src[1]) == 5):
                kind = "leadin"
        kinds.append(kind)
    known_ = [k for k in kinds if k != "?"]
    if "?" in kinds and known_ in (["leadin", "metadata"], ["leadin"], ["metadata"], []):
        R.unrecognised("writer.TdmsSegment.write::write order", fi.where(), "not every write of the header was recognised (%s): the order lead-in, then metadata is not decided" % kinds)
    elif "?" in kinds and holders[0] is not write_fi:
        R.unrecognised("writer.TdmsSegment.write::write order", fi.where(), "the header is built by %s; what write() serialises first was not recognised (%s)" % (
            holders[0].qual, kinds))
    else:
        R.check(kinds == ["leadin", "metadata"], "writer.TdmsSegment.write::write order", fi.where(), "lead-in bytes, then the metadata list's bytes",
                "the segment header is written as %s (expected the serialised lead-in followed by the serialised metadata list)" % kinds)
    wd = cfg.where(lambda n: any(call_name(c) == "self._write_data" for c in node_calls(n)))
    if not wd:
        R.violation("writer.TdmsSegment.write::raw data written", fi.where(), "write() never calls self._write_data")
    else:
        from .absval import assume_from
        r_idx = cfg.reach([cfg.entry], assume=assume_from({"self.is_index_file": True}), follow_exc=False)
        r_dat_ok, _ = cfg.always_passes(cfg.entry, lambda n: n in wd, targets={cfg.exit}, assume=assume_from({"self.is_index_file": False}), follow_exc=False)
        R.check(not any(n in r_idx for n in wd) and r_dat_ok, "writer.TdmsSegment.write::raw data iff data file", fi.where(),
                "raw data is written exactly when the segment is not the index twin", "raw data is not written exactly for data files")
        hdr = cfg.where(lambda n: any(c in wcalls for c in node_calls(n)))
        R.check(all(cfg.dominated_by(w, lambda n, h=h: n is h)[0] for w in wd for h in hdr), "writer.TdmsSegment.write::data after header", fi.where(),
                "raw data follows lead-in and metadata", "raw data is not written after the lead-in and metadata")
    # ---- (d) declared data size = written data size
    wd_f = prog.func("writer.TdmsSegment._write_data")
    rdi = prog.func("writer.TdmsSegment.raw_data_index")
    OBJ = ("bv", "obj")

    def norm_pred(p, var):
        return alpha(_subst(p, var, OBJ))
    sums = collect(DS, lambda x: isinstance(x, tuple) and x and x[0] == "sum" and x[3] == ("self", "objects"))
    p_size = norm_pred(sums[0][4], sums[0][2]) if sums else None
    p_size_raw = _subst(sums[0][4], sums[0][2], OBJ) if sums else None
    # _write_data: loop over self.objects with a filter
    p_write = None
    for n in walk_body(wd_f.node):
        if isinstance(n, ast.For) and isinstance(n.target, ast.Name):
            sw = Sym(prog, wd_f, wd_f.cls)
            env_, _g = sw.env_at(n)
            it = sw.expr(n.iter, env_)
            if it == ("self", "objects"):
                conds = []
            elif it[0] == "comp" and it[1] == it[2] and it[3] == ("self", "objects"):
                # the objects are drawn from a filtering helper:  for obj in _objects_with_raw_data(self.objects)
                conds = [_subst(c, it[2], OBJ) for c in it[4]]
            else:
                continue
            body = n.body
            while len(body) == 1 and isinstance(body[0], ast.If) and not body[0].orelse:
                conds.append(sw.expr(body[0].test, {n.target.id: OBJ, "self": ("param", "self")}))
                body = body[0].body
            calls_write = any(isinstance(c, ast.Call) and call_name(c) == "write_data" for st in body for c in ast.walk(st))
            if calls_write:
                p_write = alpha(tuple(conds))
    def conjuncts(p):
        """a selection as the set of its conjuncts; a comparison with a class reads the same with `is not` and `!=`"""
        out = []

        def add(t):
            if isinstance(t, tuple) and t and t[0] == "and":
                for x in t[1:]:
                    add(x)
            elif isinstance(t, tuple) and t and not isinstance(t[0], str):
                for x in t:
                    add(x)
            else:
                if isinstance(t, tuple) and len(t) == 2 and t[0] == "not" and isinstance(t[1], tuple) and len(t[1]) == 4 and t[1][0] == "cmp" and t[1][1] in ("is", "=="):
                    t = ("cmp", "is not", t[1][2], t[1][3])
                if isinstance(t, tuple) and len(t) == 4 and t[0] == "cmp" and t[1] == "!=" and isinstance(t[3], tuple) and t[3] and t[3][0] == "class":
                    t = ("cmp", "is not", t[2], t[3])
                out.append(t)
        add(p)
        return set(out)
    key_so = "writer.TdmsSegment._data_size/_write_data::same objects"
    if p_size is None or p_write is None:
        R.check(False, key_so, ds_f.where(), "", "declared size sums objects selected by %s, data is written for objects selected by %s" % (
            show(p_size)[:100] if p_size else None, show(p_write)[:100] if p_write else None))
    else:
        cs, cw = conjuncts(p_size), conjuncts(p_write)
        if p_size == p_write or cs == cw:
            R.ok(key_so, ds_f.where(), "declared and written data select the same objects of self.objects, in order (%s)" % show(p_size)[:80])
        elif cs < cw or cw < cs:
            R.violation(key_so, ds_f.where(), "declared size sums objects selected by %s, data is written for objects selected by %s" % (
                show(p_size)[:100], show(p_write)[:100]))
        else:
            R.unrecognised(key_so, ds_f.where(), "the two selections are written differently (%s / %s) and neither is the other with a condition dropped" % (
                show(p_size)[:80], show(p_write)[:80]))
    # the index is present for exactly these objects
    from .sym import eval_cond
    key = "writer.TdmsSegment.raw_data_index::same predicate"
    if p_size is None:
        R.undecided(key, rdi.where(), "the predicate that selects the objects whose data is written was not recognised")
    else:
        pobj = ("param", rdi.params[1])
        disagree = unknown = None
        for combo in itertools.product((True, False), repeat=len(atoms)):
            asg = dict(zip(atoms, combo))
            val = flat_list(simplify(whole, lambda c: asg.get(c)))
            if not (val and val[0] == "list" and val[1] and val[1][0][0] == "new"):
                unknown = "index form `%s` not understood" % show(alpha(val))[:80]
                continue
            present = val[1][0][1] == "types.Uint32"
            vals = [eval_cond(_subst(c, OBJ, pobj), lambda c_: asg.get(c_)) for c in p_size_raw]
            if any(x is None for x in vals) and not any(x is False for x in vals):
                unknown = "the data predicate `%s` is not decided by the conditions of the index" % show(p_size)[:80]
                continue
            written = all(x is True for x in vals)
            if written != present:
                disagree = "for an object with %s the raw data index is %s but its data is %s" % (
                    ", ".join("%s%s" % ("" if t else "not ", show(alpha(a))[:50]) for a, t in asg.items()), "present" if present else "absent",
                    "written" if written else "not written")
        if disagree:
            R.violation(key, rdi.where(), disagree)
        elif unknown:
            R.undecided(key, rdi.where(), unknown)
        else:
            R.ok(key, rdi.where(), "the raw data index is present for exactly the objects whose data is written (%d combinations of %d conditions)" % (
                2 ** len(atoms), len(atoms)))
    # per-object declared size: strings and fixed-size types
    ods = prog.func("writer.object_data_size")
    wsv = prog.func("writer.write_string_values")
    dv = ("param", ods.params[1])
    dt = ("param", ods.params[0])
    S = F = None
    for guards, val, _e in Sym(prog, ods).function_paths():
        if guards_say(guards, lambda c: contains(c, lambda x: x == ("class", "types.String"))):
            S = val
        else:
            F = val
    ENC = None
    ok_s = False
    if S is not None:
        s_ = S
        if s_[0] == "binop" and s_[1] == "+" and ("const", 0) in s_[2]:
            s_ = [t for t in s_[2] if t != ("const", 0)][0]
        if s_[0] == "sum" and not s_[4]:
            elt, bv, ENC = s_[1], s_[2], s_[3]
            ok_s = elt[0] == "binop" and elt[1] == "+" and len(elt[2]) == 2 and set(elt[2]) == {("const", 4), ("len", bv)}
        elif s_[0] == "binop" and s_[1] == "+" and len(s_[2]) == 2:
            # the same total with the offsets counted at once:  4 * len(ENC) + sum(len(v) for v in ENC)
            sums_ = [t for t in s_[2] if t[0] == "sum" and not t[4] and t[1] == ("len", t[2])]
            prods_ = [t for t in s_[2] if t[0] == "binop" and t[1] == "*" and len(t[2]) == 2 and ("const", 4) in t[2]]
            if len(sums_) == 1 and len(prods_) == 1:
                ENC = sums_[0][3]
                ok_s = set(prods_[0][2]) == {("const", 4), ("len", ENC)}
    R.check(ok_s, "writer.object_data_size::string size", ods.where(), "sum over the encoded strings of 4 (offset) + len(encoded)",
            "the declared size of string data is `%s`, not the sum over the encoded byte strings of a 4-byte offset plus the encoded length, which is what "
            "write_string_values writes" % (show(alpha(S))[:160] if S else None))

    def is_enc(x, src):
        return isinstance(x, tuple) and len(x) == 4 and x[0] == "try" and x[2] == "AttributeError" and isinstance(x[1], tuple) and len(x[1]) == 5 and x[3] == src and x[1][0] == "comp" and x[1][3] == src and not x[1][4] \
            and x[1][1] == ("method", "encode", x[1][2], (("const", "utf-8"),), ())
    R.check(is_enc(ENC, dv), "writer.object_data_size::encoded strings", ods.where(), "str.encode('utf-8') per value, falling back to the given bytes",
            "the strings measured are `%s`, not each value's UTF-8 encoding (with the bytes fallback)" % (show(alpha(ENC))[:140] if ENC else None))
    R.check(F is not None and same(F, ("binop", "*", tuple(sorted([("attr", dt, "size"), ("len", dv)], key=repr)))), "writer.object_data_size::fixed-size types", ods.where(),
            "size x number of values", "fixed-size data is declared as `%s`" % (show(alpha(F))[:100] if F else None))
    # write side of strings: loops over the same encoded list, one 4-byte offset and the bytes themselves per value
    sw = Sym(prog, wsv)
    wenv = {}
    fparam = wsv.params[0]
    sparam = ("param", wsv.params[1])
    kinds = []
    pre = []
    for st in wsv.node.body:
        if isinstance(st, ast.For):
            env_now = sw.env_at_end(pre)
            it = sw.expr(st.iter, env_now)
            writes = [c for x in st.body for c in ast.walk(x) if isinstance(c, ast.Call) and call_name(c) == "%s.write" % fparam]
            tvar = st.target.id if isinstance(st.target, ast.Name) else None
            for c in writes:
                a = c.args[0]
                if isinstance(a, ast.Name) and a.id == tvar:
                    kinds.append(("bytes", it))
                elif isinstance(a, ast.Attribute) and a.attr == "bytes" and isinstance(a.value, ast.Call) and dotted(a.value.func) == "Uint32":
                    kinds.append(("offset", it))
                elif isinstance(a, ast.Call) and call_name(a) in ("struct.pack", "_struct_pack") and len(a.args) == 2 and isinstance(a.args[0], ast.Constant) \
                        and a.args[0].value in ("<L", "<I"):
                    kinds.append(("offset", it))      # the same four little-endian bytes, packed directly
                else:
                    kinds.append(("?", it))
        pre.append(st)

    def over_enc(it):
        if is_enc(it, sparam):
            return True
        # accumulate(len(s) for s in ENC)
        inner = collect(it, lambda x: is_enc(x, sparam))
        return bool(inner) and it[0] == "call" and it[1] in ("accumulate", "itertools.accumulate")
    if "offset" not in [k for k, _ in kinds]:
        # all offsets packed and written at once, outside any loop:  file.write(struct.pack(fmt, *accumulate(len(s) for s in ENC)))
        pre2 = []
        for st in wsv.node.body:
            if isinstance(st, ast.Expr) and isinstance(st.value, ast.Call) and call_name(st.value) == "%s.write" % fparam and st.value.args:
                v_ = sw.expr(st.value.args[0], sw.env_at_end(pre2))
                inner_ = collect(v_, lambda x: is_enc(x, sparam))
                if inner_ and collect(v_, lambda x: isinstance(x, tuple) and len(x) >= 2 and x[0] == "call" and x[1] in ("accumulate", "itertools.accumulate")):
                    kinds.insert(0, ("offset", ("call", "accumulate", (inner_[0],), ())))
                elif inner_ and isinstance(v_, tuple) and v_ and v_[0] == "method" and v_[1] == "join" and v_[3] and is_enc(v_[3][0], sparam):
                    kinds.append(("bytes", inner_[0]))          # all encoded values written at once: b''.join(ENC)
            pre2.append(st)
    from .sem import module_region
    wregion = module_region(prog, wsv)
    if not kinds and len(wregion) > 1:
        R.undecided("writer.write_string_values::offsets then bytes over the encoded strings", wsv.where(),
                    "the offsets and the bytes are not written by loops of write_string_values itself (delegated to %s): not decided" % wregion[1].qual)
    elif any(k == "?" for k, _ in kinds):
        R.unrecognised("writer.write_string_values::offsets then bytes over the encoded strings", wsv.where(),
                       "a write of write_string_values is neither `<loop variable>` nor `Uint32(<offset>).bytes`: %s" % [(k, show(alpha(it))[:60]) for k, it in kinds])
    elif sorted(set(k for k, _ in kinds)) in (["bytes"], ["offset"]):
        R.unrecognised("writer.write_string_values::offsets then bytes over the encoded strings", wsv.where(),
                       "only the %s write of write_string_values was recognised: %s" % (kinds[0][0], [(k, show(alpha(it))[:60]) for k, it in kinds]))
    else:
        R.check(sorted(k for k, _ in kinds) == ["bytes", "offset"] and all(over_enc(it) for _, it in kinds), "writer.write_string_values::offsets then bytes over the encoded strings", wsv.where(),
                "one Uint32 end offset and the encoded bytes per value, over the same encoded list", "string data is written as %s" % [(k, show(alpha(it))[:60]) for k, it in kinds])
    R.check(_type_size(prog, wmod, "Uint32") == 4, "writer.write_string_values::4-byte offsets", wsv.where(), "Uint32 offsets match the 4 bytes per value declared", "offset type is not 4 bytes")
    # running offset = cumulative encoded length
    t = "\n".join(unparse(f_.node) for f_ in wregion)
    R.check(("+= len(" in t) or ("accumulate(" in t), "writer.write_string_values::cumulative offsets", wsv.where(), "offsets are running totals of the encoded lengths",
            "string offsets are not cumulative encoded lengths")
    helper_funcs = [f for f in prog.functions.values() if f.module is wmod and f.name.startswith("_") and ".encode(" in unparse(f.node)]
    for f in [ods, wsv] + helper_funcs:
        bad = [x for x in ast.walk(f.node) if (isinstance(x, ast.Attribute) and dotted(x) in ("np.char", "np.str_", "np.bytes_", "np.unicode_"))
               or (isinstance(x, ast.Call) and call_name(x) in ("np.char.encode", "np.char.str_len", "np.asarray") and "str" in unparse(x))]
        R.check(not bad, "%s::no fixed-width NumPy strings" % f.qual, f.where(),
                "values are encoded one by one", "string values pass through a fixed-width NumPy string array (`%s`), which drops trailing NUL "
                "characters and measures characters, not bytes" % (unparse(bad[0])[:60] if bad else ""))


@rule("BL6", "the index file is the data file minus raw data with the tag replaced", floor=5)
def bl6(ctx, R):
    """is_index_file may only select the tag of the lead-in and skip the raw data; write_segment writes two segments built from the same
    objects and version, the plain one to the data stream and the index twin to the index stream.  Decided on normal forms: segment
    constructions and write calls are collected through helpers with their parameters substituted."""
    from .sym import Sym, show, alpha, eval_cond, same
    from .sem import find, W, match, calls_to, call_arg, subst
    from .region import region, call_reaches
    prog = ctx.prog
    seg = prog.cls("writer.TdmsSegment")
    FLAG = ("self", "is_index_file")
    wr = seg.methods.get("write")
    writing = {g.qual for g in region(ctx, wr, depth=3)} if wr is not None else None

    def in_log(fi_, n_):
        return any(isinstance(c, ast.Call) and (call_name(c) or "").startswith(("log.", "logging.", "logger.")) and any(x is n_ for x in ast.walk(c))
                   for c in walk_body(fi_.node))
    # the methods that take part in writing a segment (write() and what it calls): a new informational method (__repr__, a size
    # query) that mentions the flag is not part of what is written
    users = [fi for fi in seg.methods.values() if fi.name != "__init__" and (writing is None or fi.qual in writing) and any(
        isinstance(n, ast.Attribute) and n.attr == "is_index_file" and isinstance(n.ctx, ast.Load) and not in_log(fi, n) for n in walk_body(fi.node))]
    if not users:
        raise AnchorMissing("writer.TdmsSegment: uses of is_index_file")
    wd = "writer.TdmsSegment._write_data"
    for fi in sorted(users, key=lambda f: f.qual):
        key = "%s::is_index_file" % fi.qual
        sy = Sym(prog, fi, seg, inline=False)
        v = sy.function_value()
        uses_in_value = find(v, FLAG) if v[0] != "opaque" else []
        tag_phis = find(v, ("phi", FLAG, ("const", b"TDSh"), ("const", b"TDSm"))) if v[0] != "opaque" else []
        if v[0] != "opaque":
            # ... or the flag unless an optional argument overrides it:  (flag if arg is None else arg)
            tag_phis = list(tag_phis) + list(find(v, ("phi", ("phi", ("cmp", "is", W("p"), ("const", None)), FLAG, W("p2")), ("const", b"TDSh"), ("const", b"TDSm"))))
        # statements guarded by the flag
        guarded = []
        for st in walk_body(fi.node):
            if isinstance(st, ast.Return) and st.value is None:
                continue
            if isinstance(st, (ast.Expr, ast.Assign, ast.AugAssign, ast.Return)):
                _env, guards = sy.env_at(st)
                if any(find(g, FLAG) for g in guards):
                    guarded.append((st, guards))
        if uses_in_value and not guarded:
            R.check(len(tag_phis) >= 1 and len(uses_in_value) == len(tag_phis), key + " selects the tag", fi.where(), "TDSh for the index file, TDSm for the data file",
                    "is_index_file influences %s other than by selecting TDSh/TDSm: `%s`" % (fi.name, show(alpha(v))[:200]))
            continue
        ok = bool(guarded)
        for st, guards in guarded:
            if isinstance(st, ast.Raise):
                continue         # a rejected combination of arguments: nothing is written on that path
            calls = [c for c in ast.walk(st) if isinstance(c, ast.Call)]
            only_raw = isinstance(st, ast.Expr) and len(calls) >= 1 and call_reaches(ctx, fi, calls[0], {wd}) and isinstance(st.value, ast.Call) and st.value is calls[0]
            run_index = not any(eval_cond(g, lambda c: True if c == FLAG else None) is False for g in guards)
            run_data = not any(eval_cond(g, lambda c: False if c == FLAG else None) is False for g in guards)
            if run_index and run_data:
                continue         # the flag does not exclude this statement in either mode (e.g. it follows a validation that mentions the flag)
            if not (only_raw and run_data and not run_index):
                ok = False
        # every syntactic use is the test of such an `if` (or the tag selection)
        stray = []
        for n in walk_body(fi.node):
            if isinstance(n, ast.Attribute) and n.attr == "is_index_file" and isinstance(n.ctx, ast.Load):
                in_if_test = any(isinstance(x, ast.If) and any(y is n for y in ast.walk(x.test)) for x in walk_body(fi.node))
                in_tag = any(isinstance(x, ast.IfExp) and any(y is n for y in ast.walk(x.test)) and
                             sorted([repr(prog.try_fold(x.body, fi.module)), repr(prog.try_fold(x.orelse, fi.module))]) == [repr(b"TDSh"), repr(b"TDSm")]
                             for x in walk_body(fi.node))
                # a bookkeeping field that nothing on the writing side reads (statistics for the caller)
                st_ = next((x for x in walk_body(fi.node) if isinstance(x, ast.Assign) and any(y is n for y in ast.walk(x.value))), None)
                bookkeeping = st_ is not None and all(isinstance(t, ast.Attribute) and dotted(t.value) == "self" for t in st_.targets) and not any(
                    isinstance(y, ast.Attribute) and isinstance(y.ctx, ast.Load) and y.attr in {t.attr for t in st_.targets}
                    for g in seg.methods.values() if writing is None or g.qual in writing for y in ast.walk(g.node))
                if not (in_if_test or in_tag or in_log(fi, n) or bookkeeping):
                    stray.append(n)
        R.check(ok and not uses_in_value and not stray, key + " guards the raw data", fi.where(), "raw data is written iff this is not the index file",
                "is_index_file influences %s() other than by skipping the raw data" % fi.name)
    # the two writes of write_segment
    ws = prog.func("writer.TdmsWriter.write_segment")
    init = prog.func("writer.TdmsSegment.__init__")
    events = []

    def collect(f, binding, outer_guards, depth):
        sf = Sym(prog, f, f.cls, inline=False)
        for c in walk_body(f.node):
            if not isinstance(c, ast.Call):
                continue
            if isinstance(c.func, ast.Attribute) and c.func.attr == "write" and len(c.args) == 1:
                env, guards = sf.env_at(c)
                base = sf.expr(c.func.value, env)
                if base[0] == "method" and isinstance(base[2], tuple) and base[2] and base[2][0] == "new" and base[2][1] == seg.qual and base[1] in seg.methods \
                        and not base[3] and not base[4]:
                    # the twin is derived from the segment by one of its own methods:  segment.index_segment().write(...)
                    from .sem import leaves as _leaves
                    from .region import ctor_fields as _cf
                    mv = Sym(prog, seg.methods[base[1]], seg, inline=False).function_value()
                    news = [lf for _cs, lf in _leaves(mv) if lf[0] == "new" and lf[1] == seg.qual]
                    if len(news) == 1:
                        recv = base[2]
                        fld_of = {fld: (pos, pn) for pos, (fld, pn) in _cf(seg).items()}

                        def own(v_):
                            if isinstance(v_, tuple):
                                if len(v_) == 2 and v_[0] == "self" and v_[1] in fld_of:
                                    pos, pn = fld_of[v_[1]]
                                    if pos < len(recv[2]):
                                        return recv[2][pos]
                                    kw_ = dict(recv[3])
                                    if pn in kw_:
                                        return kw_[pn]
                                    d_ = init.defaults.get(pn)
                                    return Sym(prog, init, seg).expr(d_, {}) if d_ is not None else v_
                                return tuple(own(y) for y in v_)
                            return v_
                        base = own(news[0])
                if base[0] == "new" and base[1] == seg.qual:
                    ev = {"stream": sf.expr(c.args[0], env), "guards": tuple(outer_guards) + tuple(guards), "where": f.where(c)}
                    dummy = ast.Call(func=ast.Name(id="TdmsSegment", ctx=ast.Load()), args=[], keywords=[])
                    ps = [p for p in init.params if p != "self"]
                    vals = {}
                    for k_, p_ in enumerate(ps):
                        if k_ < len(base[2]):
                            vals[p_] = base[2][k_]
                    for kn, kv in base[3]:
                        vals[kn] = kv
                    for p_, d_ in init.defaults.items():
                        if p_ not in vals:
                            vals[p_] = Sym(prog, init, seg).expr(d_, {})
                    ev.update(vals)
                    for k_ in list(ev):
                        if k_ not in ("guards", "where"):
                            for p_, a_ in binding.items():
                                ev[k_] = subst(ev[k_], ("param", p_), a_)
                    ev["guards"] = tuple(subst(g, ("param", p_), a_) for g in ev["guards"] for p_, a_ in [(None, None)]) if not binding else tuple(
                        _subst_all(g, binding) for g in ev["guards"])
                    events.append(ev)
            elif depth > 0:
                from .flow import resolve_call
                for t, _k in resolve_call(prog, f, f.cls, c):
                    if t.module.name == "writer" and t.cls is f.cls and t is not f and not t.is_generator:
                        env, guards = sf.env_at(c)
                        b2 = {}
                        for p_ in [x for x in t.params if x != "self"]:
                            a_ = call_arg(prog, c, t, p_, sf, env)
                            if a_ is not None:
                                b2[p_] = _subst_all(a_, binding)
                        collect(t, b2, tuple(outer_guards) + tuple(_subst_all(g, binding) for g in guards), depth - 1)
    collect(ws, {}, (), 3)
    if len(events) != 2:
        bad = [c for c in ast.walk(prog.module("writer").tree) if isinstance(c, ast.Call) and isinstance(c.func, ast.Attribute)
               and c.func.attr == "replace" and c.args and isinstance(prog.try_fold(c.args[0], prog.module("writer")), bytes)]
        if bad:
            R.violation("writer::tag replaced by substring replacement", "%s:%d" % (prog.module("writer").relpath, bad[0].lineno),
                        "`%s` rewrites every occurrence of the tag bytes in serialised metadata, including occurrences inside object names and "
                        "property values" % unparse(bad[0])[:80])
        if bad:
            return
        if len(events) == 1:
            # one segment object serves both files (its write() is handed both streams): the twin is not a second construction
            R.unrecognised("writer.TdmsWriter.write_segment::index twin", ws.where(), "one TdmsSegment is constructed and written; how the index file's copy is produced "
                           "from it was not recognised, so the twin's objects / version / stream are not decided")
            return
        raise AnchorMissing("writer.TdmsWriter.write_segment: two TdmsSegment constructions (data and index), found %d" % len(events))
    objp = [p for p in init.params if p != "self"][0]
    flagp = [p for p in init.params if "index" in p][0]
    verp = [p for p in init.params if "version" in p][0]
    data = [e for e in events if e.get(flagp) == ("const", False)]
    index = [e for e in events if e.get(flagp) == ("const", True)]
    R.check(len(data) == 1 and len(index) == 1, "writer.TdmsWriter.write_segment::index flag", ws.where(),
            "one plain segment and one index twin", "index flag not set on exactly one of the two segments (%s)" % [show(e.get(flagp)) for e in events])
    if len(data) == 1 and len(index) == 1:
        a, b = data[0], index[0]
        R.check(same(a[objp], b[objp]) and same(a[verp], b[verp]), "writer.TdmsWriter.write_segment::same objects and version", a["where"],
                "both segments are built from the same object list and version",
                "data and index segments are built from different inputs (%s / %s)" % (show(alpha(a[objp]))[:80], show(alpha(b[objp]))[:80]))
        streams = (a["stream"], b["stream"])
        R.check(streams == (("self", "_file"), ("self", "_index_file")), "writer.TdmsWriter.write_segment::streams", ws.where(),
                "data segment -> data stream, index segment -> index stream", "segments are written to %s" % [show(x) for x in streams])
        has_guard = any(g == ("cmp", "is not", ("self", "_index_file"), ("const", None)) or g == ("self", "_index_file") for g in b["guards"])
        R.check(has_guard and not any(find(g, ("self", "_index_file")) for g in a["guards"]), "writer.TdmsWriter.write_segment::index written only when there is an index stream",
                b["where"], "the index twin is written iff an index stream exists", "the index segment is not guarded by the presence of the index stream")
    bad = [c for c in ast.walk(prog.module("writer").tree) if isinstance(c, ast.Call) and isinstance(c.func, ast.Attribute)
           and c.func.attr == "replace" and c.args and isinstance(prog.try_fold(c.args[0], prog.module("writer")), bytes)]
    R.check(not bad, "writer::no byte-level tag rewriting", ws.where(), "no bytes.replace on serialised data",
            "serialised bytes are rewritten with bytes.replace")


def _subst_all(v, binding):
    from .sem import subst
    for p_, a_ in binding.items():
        v = subst(v, ("param", p_), a_)
    return v


def find_ordering_key(prog):
    """the function that ranks an object path (root < group < channel): writer._path_ordering_key, or - renamed, moved, turned into a
    method of the path class - the one function that tests .is_root and .is_group of its argument and returns integer constants"""
    try:
        return prog.func("writer._path_ordering_key")
    except AnchorMissing:
        pass
    cands = []
    for f in prog.functions.values():
        if not f.params:
            continue
        p = f.params[0]
        attrs = {n.attr for n in ast.walk(f.node) if isinstance(n, ast.Attribute) and isinstance(n.value, ast.Name) and n.value.id == p}
        rets = [n.value for n in walk_body(f.node) if isinstance(n, ast.Return)]
        if {"is_root", "is_group"} <= attrs and rets and all(isinstance(r, ast.Constant) and type(r.value) is int for r in rets):
            cands.append(f)
    return cands[0] if len(cands) == 1 else None


def _key_reaches_ordering(prog, fi, key_expr, pk=None):
    """sort key reaches the ordering function (directly, through a lambda, or through a helper)"""
    if key_expr is None:
        return False
    name = pk.name if pk is not None else "_path_ordering_key"
    is_it = lambda c: (call_name(c) or "").split(".")[-1] == name or (isinstance(c.func, ast.Attribute) and c.func.attr == name)
    if (dotted(key_expr) or "").split(".")[-1] == name:
        return True
    if isinstance(key_expr, ast.Lambda):
        return any(isinstance(c, ast.Call) and is_it(c) for c in ast.walk(key_expr.body))
    r = prog.resolve_expr(fi.module, key_expr) if isinstance(key_expr, (ast.Name, ast.Attribute)) else None
    if r and r[0] == "func":
        return any(isinstance(c, ast.Call) and is_it(c) for c in walk_body(r[1].node))
    return False


def _bucket_form(prog, ws, pk=None):
    """objects collected in one list per rank:  T = (a, b, c); T[_path_ordering_key(p)].append(o); ...; a + b + c
    -> (names per rank, joined in rank order?, node) or None"""
    cands = {}
    for n in walk_body(ws.node):
        if isinstance(n, ast.Assign) and len(n.targets) == 1 and isinstance(n.targets[0], ast.Name) and isinstance(n.value, (ast.Tuple, ast.List)) \
                and n.value.elts and all(isinstance(e, ast.Name) or (isinstance(e, ast.List) and not e.elts) for e in n.value.elts):
            cands[n.targets[0].id] = n.value.elts
    hit = None
    for c in walk_body(ws.node):
        if isinstance(c, ast.Call) and isinstance(c.func, ast.Attribute) and c.func.attr == "append" and isinstance(c.func.value, ast.Subscript) \
                and isinstance(c.func.value.value, ast.Name) and c.func.value.value.id in cands:
            idx = c.func.value.slice
            if isinstance(idx, ast.Call) and (call_name(idx) == "_path_ordering_key" or _key_reaches_ordering(prog, ws, idx.func, pk)):
                hit = (c.func.value.value.id, c)
    if hit is None:
        return None
    T, node = hit
    names = [e.id if isinstance(e, ast.Name) else None for e in cands[T]]
    for n in walk_body(ws.node):
        if isinstance(n, ast.Assign) and isinstance(n.value, ast.Name) and n.value.id == T and isinstance(n.targets[0], (ast.Tuple, ast.List)) \
                and len(n.targets[0].elts) == len(names) and all(isinstance(e, ast.Name) for e in n.targets[0].elts):
            names = [e.id for e in n.targets[0].elts]

    def flat(e):
        if isinstance(e, ast.BinOp) and isinstance(e.op, ast.Add):
            a, b = flat(e.left), flat(e.right)
            return a + b if a is not None and b is not None else None
        if isinstance(e, ast.Name):
            return [e.id]
        return None
    joined = False
    for n in walk_body(ws.node):
        if isinstance(n, ast.Assign) and isinstance(n.value, ast.BinOp):
            f = flat(n.value)
            if f is not None and None not in names and f == names:
                joined = True
    return names, joined, node


@rule("PO1", "parents are declared first and the written-state is updated only after the segment was written", floor=4)
def po1(ctx, R):
    from .region import region, nodes_reaching, cone
    from .absval import eval_simple_function
    prog = ctx.prog
    ws = prog.func("writer.TdmsWriter.write_segment")
    cfg = ctx.cfg(ws)
    reg = region(ctx, ws)
    # (1) the object list handed to the segment is sorted parents-first
    pk = find_ordering_key(prog)
    if pk is None:
        R.unrecognised("writer::ordering key", ws.where(), "the function that ranks root < group < channel was not recognised")
        return
    sorts, other_sorts = [], []
    for f in reg:
        for c in walk_body(f.node):
            if isinstance(c, ast.Call):
                key = next((k.value for k in c.keywords if k.arg == "key"), None)
                if (isinstance(c.func, ast.Attribute) and c.func.attr == "sort") or call_name(c) == "sorted":
                    if _key_reaches_ordering(prog, f, key, pk):
                        sorts.append((f, c))
                    elif key is not None:
                        other_sorts.append((f, c))
    buckets = _bucket_form(prog, ws, pk) if not sorts else None
    if not sorts and buckets is not None:
        names, concat_ok, where_ = buckets
        if concat_ok:
            R.ok("writer.TdmsWriter.write_segment::objects sorted parents-first", ws.where(where_),
                 "objects are collected in one list per rank of _path_ordering_key and the lists are joined in rank order")
        else:
            R.undecided("writer.TdmsWriter.write_segment::objects sorted parents-first", ws.where(where_),
                        "objects are collected per rank of _path_ordering_key, but how the lists are joined was not recognised")
    elif not sorts:
        # positive evidence of disorder: implicit parents are added behind the caller's objects and nothing reorders the list
        late = [c for c in walk_body(ws.node) if isinstance(c, ast.Call) and isinstance(c.func, ast.Attribute) and c.func.attr in ("append", "extend", "insert")
                and any(isinstance(x, ast.Call) and call_name(x) in ("RootObject", "GroupObject") for x in ast.walk(c))]
        if late and other_sorts:
            R.unrecognised("writer.TdmsWriter.write_segment::objects sorted parents-first", other_sorts[0][0].where(other_sorts[0][1]),
                           "the list is sorted, but by a key that was not recognised as the parents-first ranking")
        elif late:
            R.violation("writer.TdmsWriter.write_segment::objects sorted parents-first", ws.where(late[0]), "no sort by _path_ordering_key on the way to the "
                        "segment although implicit parent objects are added behind the caller's objects (`%s`): the object list is no longer ordered root "
                        "first, then groups, so a channel can precede its group" % unparse(late[0])[:70])
        else:
            R.undecided("writer.TdmsWriter.write_segment::objects sorted parents-first", ws.where(), "how the object list is ordered was not recognised")
    else:
        f, c = sorts[0]
        R.ok("writer.TdmsWriter.write_segment::objects sorted parents-first", f.where(c), "sorted with a key that reaches _path_ordering_key")
        if f is ws and isinstance(c.func, ast.Attribute) and c.func.attr == "sort":
            lst = dotted(c.func.value)
            sn = cfg.where(lambda n: any(x is c for x in node_calls(n)))
            late = []
            for s in sn:
                after = cfg.reach([s], follow_exc=False)
                late += [n for n in after if n is not s and any(call_name(x) in (lst + ".append", lst + ".extend", lst + ".insert") for x in node_calls(n))]
            R.check(not late, "writer.TdmsWriter.write_segment::sort is the last change of the list", ws.where(c),
                    "no object is added after the parents-first sort", "objects are added to the list after it was sorted")
    p = pk.params[0]
    ranks = {}
    for kind, facts in (("root", {p + ".is_root": True, p + ".is_group": False, p + ".is_channel": False}),
                        ("group", {p + ".is_root": False, p + ".is_group": True, p + ".is_channel": False}),
                        ("channel", {p + ".is_root": False, p + ".is_group": False, p + ".is_channel": True})):
        ranks[kind] = eval_simple_function(prog, pk, facts)
    single = all(len(v) == 1 and isinstance(next(iter(v)), (int, float)) for v in ranks.values())
    if not single:
        R.undecided("writer._path_ordering_key::root < group < channel", pk.where(), "ranks not constant: %s" % ranks)
    else:
        r_, g_, c_ = (next(iter(ranks[k])) for k in ("root", "group", "channel"))
        R.check(r_ < g_ < c_, "writer._path_ordering_key::root < group < channel", pk.where(), "ranks root=%s group=%s channel=%s" % (r_, g_, c_),
                "ordering key is not strictly increasing root < group < channel (root=%s, group=%s, channel=%s)" % (r_, g_, c_))
    # (2) written-state is updated only after the writes
    stores = cfg.where(lambda n: n.kind == "stmt" and (
        (isinstance(n.ast, ast.Assign) and any(dotted(t) == "self._root_written" for t in n.ast.targets)) or
        (isinstance(n.ast, ast.AugAssign) and dotted(n.ast.target) == "self._groups_written") or
        any(call_name(c) in ("self._groups_written.update", "self._groups_written.add") for c in node_calls(n))))
    if not stores:
        # the bookkeeping moved into a helper method: the call that reaches it stands for the update
        def updates_state(f):
            return any((isinstance(n, ast.Assign) and any(dotted(t) == "self._root_written" for t in n.targets)) or
                       (isinstance(n, ast.Call) and call_name(n) in ("self._groups_written.update", "self._groups_written.add")) for n in walk_body(f.node))
        helpers = {m.qual for m in ws.cls.methods.values() if m is not ws and m.name != "__init__" and updates_state(m)}
        stores = nodes_reaching(ctx, ws, cfg, helpers) if helpers else []
    if not stores:
        raise AnchorMissing("writer.TdmsWriter.write_segment: updates of _root_written/_groups_written")
    writes = nodes_reaching(ctx, ws, cfg, {"writer.TdmsSegment.write"})
    if not writes:
        raise AnchorMissing("writer.TdmsWriter.write_segment: calls that reach TdmsSegment.write")
    for s in stores:
        dom = any(cfg.dominated_by(s, lambda n, w=w: n is w)[0] for w in writes)
        after = cfg.reach([s], follow_exc=False)
        later_write = [w for w in writes if w in after and w is not s]
        R.check(dom and not later_write, "writer.TdmsWriter.write_segment::`%s` after the writes" % unparse(s.ast)[:50], ws.where(s.ast),
                "state is updated after data and index segments were written",
                "the record of which parents were already declared is updated before the segment is written: if this call fails (unsupported "
                "property value, duplicate path) the next segment is written without root/group objects")
    # (3) implicit root / groups depend on what was already written
    roots = [c for c in walk_body(ws.node) if isinstance(c, ast.Call) and dotted(c.func) == "RootObject"]
    groups = [c for c in walk_body(ws.node) if isinstance(c, ast.Call) and dotted(c.func) == "GroupObject"]
    if not roots or not groups:
        R.undecided("writer.TdmsWriter.write_segment::implicit parents", ws.where(), "RootObject()/GroupObject() are not created in write_segment itself")
    else:
        from .region import _enclosing_tests
        rt = _enclosing_tests(ws, roots[0])
        rc = set()
        for t in rt:
            rc |= cone(ctx, ws, t)
        if not rt:
            R.violation("writer.TdmsWriter.write_segment::root added only when missing", ws.where(roots[0]), "a root object is added unconditionally")
        else:
            root_bucket = buckets[0][0] if buckets is not None and buckets[0] and buckets[0][0] else None
            R.check("self._root_written" in rc and (".is_root" in rc or (root_bucket is not None and root_bucket in rc)),
                    "writer.TdmsWriter.write_segment::root added only when missing", ws.where(roots[0]),
                    "depends on _root_written and on whether a root object was given",
                    "the implicit root object does not depend on both self._root_written and the presence of a root object in the segment (depends on %s)" % sorted(x for x in rc if "root" in x))
        g = groups[0]
        gc = cone(ctx, ws, g.args[0]) if g.args else set()
        R.check("self._groups_written" in gc and (".is_channel" in gc or ".is_group" in gc), "writer.TdmsWriter.write_segment::groups added only when missing", ws.where(g),
                "implicit groups depend on the channels' groups, the groups given and _groups_written",
                "implicit group objects do not depend on self._groups_written and on the kinds of the objects in the segment")


@rule("WT1", "every written segment restates the full object list and sets kTocNewObjList", floor=2)
def wt1(ctx, R):
    prog = ctx.prog
    fi = prog.func("writer.TdmsSegment.write")
    from .region import region as _region
    for g in _region(ctx, fi, depth=2):
        if g.cls is fi.cls and any(isinstance(c, ast.Call) and call_name(c) == "self.leadin" for c in walk_body(g.node)):
            fi = g          # write() itself, or the private helper that builds the header for it
            break
    lead = [c for c in walk_body(fi.node) if isinstance(c, ast.Call) and call_name(c) == "self.leadin"]
    if not lead:
        raise AnchorMissing("writer.TdmsSegment.write: call of self.leadin")
    toc_arg = lead[0].args[0] if lead[0].args else None
    defs = _defs(fi, toc_arg.id) if isinstance(toc_arg, ast.Name) else [toc_arg]
    need = {"kTocMetaData", "kTocRawData", "kTocNewObjList"}
    for d in defs:
        v = prog.try_fold(d, fi.module)
        if isinstance(v, tuple):
            v = list(v)
        if isinstance(v, list) and v and all(hasattr(x_, "name") and hasattr(x_, "value") for x_ in v):
            v = [x_.name for x_ in v]
        if not isinstance(v, list):
            if isinstance(d, ast.Attribute) and dotted(d.value) == "self":
                # kept in a field / class constant: follow it to the one constant it is given
                cv = prog.class_const(fi.cls, d.attr) if fi.cls is not None else None
                if isinstance(cv, (list, tuple)):
                    v = [getattr(x_, "name", x_) for x_ in cv]
            if not isinstance(v, list):
                R.unrecognised("writer.TdmsSegment.write::toc flags", fi.where(d) if d is not None else fi.where(), "the ToC flags handed to leadin() (`%s`) do not fold to a constant list: not decided" % (unparse(d)[:60] if d is not None else None))
                continue
        if isinstance(v, list) and v and all(isinstance(x_, int) and not isinstance(x_, bool) for x_ in v):
            # flag values (members of an IntFlag fold to their numbers): back to names through the table
            try:
                tab_ = prog.try_fold(prog.module("common").assigns.get("toc_properties"), prog.module("common"), default=None)
            except Exception:
                tab_ = None
            if isinstance(tab_, dict):
                inv_ = {val_: nm_ for nm_, val_ in tab_.items()}
                if all(x_ in inv_ for x_ in v):
                    v = [inv_[x_] for x_ in v]
        R.check(isinstance(v, list) and need <= set(v) and "kTocBigEndian" not in v, "writer.TdmsSegment.write::toc flags", fi.where(d),
                "ToC = %s" % v, "a written segment's ToC flags are %s (not a constant list containing %s): metadata() always restates the complete "
                "object list, so the segment must say so, otherwise readers keep the previous segment's object order" % (
                    unparse(d) if v is None else v, sorted(need)))
    # toc is not modified between definition and use
    muts = [c for c in walk_body(fi.node) if isinstance(c, ast.Call) and isinstance(c.func, ast.Attribute) and isinstance(toc_arg, ast.Name)
            and dotted(c.func.value) == toc_arg.id and c.func.attr in ("remove", "append", "pop", "extend", "clear")]
    R.check(not muts, "writer.TdmsSegment.write::toc list unmodified", fi.where(), "flag list is a constant", "flag list is edited before use (%s)" % (unparse(muts[0]) if muts else ""))
    md = prog.func("writer.TdmsSegment.metadata")
    from .region import region
    loop_ok = any((isinstance(n, ast.For) and dotted(n.iter) == "self.objects") or (isinstance(n, ast.comprehension) and dotted(n.iter) == "self.objects")
                  for f in region(ctx, md, depth=2) if f.cls is md.cls for n in ast.walk(f.node))
    R.check(loop_ok, "writer.TdmsSegment.metadata::all objects listed", md.where(), "metadata lists every object of the segment",
            "metadata does not iterate over all objects")


@rule("MS1", "objects handed to the writer do not memoise what they derive from attributes the caller may reassign", floor=0)
def ms1(ctx, R):
    """RootObject / GroupObject / ChannelObject are plain value objects: `data` and `properties` are ordinary attributes, and reusing one
    object for several write_segment calls with new data is the documented way to append.  A method of such a class that stores in a
    private field, under `if self._m is None`, a value derived from one of those public attributes - and that nothing ever resets -
    keeps describing the first data: the declared type / size and the bytes written then disagree."""
    prog = ctx.prog
    wmod = prog.module("writer")
    try:
        classes = [prog.cls("writer.%s" % n_) for n_ in ("RootObject", "GroupObject", "ChannelObject")]
    except AnchorMissing:
        R.unrecognised("writer::object classes", wmod.relpath, "RootObject / GroupObject / ChannelObject not found")
        return
    n_inst = 0
    for ci in classes:
        init = None
        for k in prog.mro(ci):
            if "__init__" in k.methods:
                init = k.methods["__init__"]
                break
        if init is None:
            continue
        # public attributes stored straight from constructor parameters, not shadowed by a property
        public = set()
        for n_ in walk_body(init.node):
            if isinstance(n_, ast.Assign):
                for t_ in n_.targets:
                    if isinstance(t_, ast.Attribute) and dotted(t_.value) == "self" and not t_.attr.startswith("_") and any(
                            isinstance(x_, ast.Name) and x_.id in init.params for x_ in ast.walk(n_.value)):
                        found = prog.lookup(ci, t_.attr)
                        if not (found and found[0] == "method"):
                            public.add(t_.attr)
        methods = [m_ for k in prog.mro(ci) for m_ in k.methods.values() if m_.name != "__init__"]
        for m_ in methods:
            for st in walk_body(m_.node):
                if not (isinstance(st, ast.If) and isinstance(st.test, ast.Compare) and len(st.test.ops) == 1 and isinstance(st.test.ops[0], ast.Is)
                        and isinstance(st.test.comparators[0], ast.Constant) and st.test.comparators[0].value is None
                        and isinstance(st.test.left, ast.Attribute) and dotted(st.test.left.value) == "self" and st.test.left.attr.startswith("_")):
                    continue
                memo = st.test.left.attr
                stores = [a_ for a_ in st.body if isinstance(a_, ast.Assign) and any(isinstance(t_, ast.Attribute) and dotted(t_.value) == "self" and t_.attr == memo for t_ in a_.targets)]
                if not stores:
                    continue
                # what the stored value is derived from: attributes of self read in the value, or in the own helper method it calls
                reads = set()
                def reads_of(node, depth=0):
                    for x_ in ast.walk(node):
                        if isinstance(x_, ast.Attribute) and dotted(x_.value) == "self" and isinstance(x_.ctx, ast.Load):
                            reads.add(x_.attr)
                            h = prog.lookup(ci, x_.attr)
                            if h and h[0] == "method" and depth < 2 and h[2] is not m_:
                                reads_of(h[2].node, depth + 1)
                reads_of(stores[0].value)
                derived = sorted(reads & public)
                if not derived:
                    continue
                resets = [g for g in methods if g is not m_ for a_ in walk_body(g.node) if isinstance(a_, ast.Assign) and any(
                    isinstance(t_, ast.Attribute) and dotted(t_.value) == "self" and t_.attr == memo for t_ in a_.targets)]
                n_inst += 1
                key = "%s.%s::memo of %s" % (ci.qual, m_.name, ", ".join(derived))
                R.check(bool(resets), key, m_.where(st), "the memo is reset elsewhere",
                        "`self.%s` keeps the value computed from `self.%s` the first time; `%s` is an ordinary attribute the caller may assign again (the same object written "
                        "in several segments with new data), and nothing resets the memo: the declared type / size of later segments describes the first data" % (
                            memo, derived[0], derived[0]))
    if n_inst == 0:
        R.ok("writer::no memo derived from a reassignable attribute", wmod.relpath, "no method of the writable object classes memoises a value derived from `data` / `properties`")


@rule("UC1", "names, property strings and string data use one codec in writer and reader", floor=4)
def uc1(ctx, R):
    prog = ctx.prog
    codecs = []
    # types.py, writer.py and every module that did not exist on the baseline tree (code moved out of them)
    BASELINE_MODULES = {"__init__", "base_segment", "channel_data", "common", "daqmx", "log", "reader", "scaling", "tdms", "tdms_segment", "tdmsinfo",
                        "thermocouples", "timestamp", "types", "utils", "version", "writer", "export", "export.hdf_export", "export.pandas_export", "export.__init__"}
    for mod in [prog.module("types"), prog.module("writer")] + [m_ for nm_, m_ in sorted(prog.modules.items()) if nm_ not in BASELINE_MODULES]:
        for n in ast.walk(mod.tree):
            if isinstance(n, ast.Call) and isinstance(n.func, ast.Attribute) and n.func.attr in ("encode", "decode"):
                c = prog.try_fold(n.args[0], mod) if n.args else "<default utf-8>"
                codecs.append((mod, n, c))
    if len(codecs) < 3:
        raise AnchorMissing("encode/decode sites in types.py and writer.py (found %d)" % len(codecs))
    for mod, n, c in codecs:
        cn = (c or "").lower().replace("_", "-") if isinstance(c, str) else c
        R.check(cn in ("utf-8", "utf8", "<default utf-8>"), "%s::%s" % (mod.name, unparse(n)[:50]), "%s:%d" % (mod.relpath, n.lineno),
                "UTF-8", "codec %r differs from the UTF-8 used everywhere else: non-ASCII text would not survive a write/read cycle" % (c,))
