"""Per-property specification: rules, explanation (what is decided), not-decided list, assumptions."""

PROPERTIES = {}


def prop(pid, rules, explanation, not_decided, assumptions):
    PROPERTIES[pid] = dict(rules=rules, explanation=explanation, not_decided=not_decided, assumptions=assumptions)


COMMON_ASSUMPTIONS = [
    "CPython's ast of /repo's current working tree is the program; nothing under /repo is imported or executed",
    "no monkey-patching, no user subclasses of library classes, objects passed in follow the documented protocols",
    "the engine's CFG construction, MRO/call resolution and the frozen tables printed per rule are correct (validated by the variant self-test)",
]

prop("C20",
     ["RL1", "RL2", "RL4", "RL5", "RL6", "RL7", "RL8", "ST2"],
     "Static resource-lifecycle analysis over statement-level CFGs with exceptional edges: who may open()/close(), "
     "pairing of handle and owner fields, release on every normal and exceptional exit of eager construction per "
     "public entry point, completeness and idempotence of close(), use-after-close guard dominance, acquisition safety.",
     ["that file.close() itself releases the descriptor (trusted)",
      "TdmsFile.open() with a malformed file (keep_open=True: the reader is left to the garbage collector; outside the letter of the property)"],
     COMMON_ASSUMPTIONS)

prop("C15",
     ["BL3", "BL4", "BL1"],
     "Enumerates every read-side parse site and decides that the segment's byte order reaches it: every struct format prefix, "
     "every call of a callee with an endianness parameter (default-argument trap included), every dtype used to reinterpret "
     "file bytes, the three per-segment derivations from the ToC mask (polarity, own mask), absence of a cached byte order on "
     "long-lived objects, timestamp field order/signedness per byte order and by-name copying when chunks are merged.",
     ["value equality of the two encodings (follows from the threading plus NumPy/struct semantics, which are trusted)"],
     COMMON_ASSUMPTIONS)

prop("C05",
     ["CT1", "OW4", "CE1"],
     "Typestate analysis of the shared stream position across generators (continuation-passing abstract interpretation over the "
     "three data-reader classes, entry points TdmsFile.data_chunks, TdmsChannel.data_chunks/iteration, read_data, slices, integer "
     "indexing): every position-dependent operation (read/readinto/tell/relative seek) is preceded by an absolute seek since the "
     "last suspension. Plus single-writer discipline of the memo fields and offset index, pairing and two-sided test of the "
     "one-chunk cache, and element-complete comparison before offset arrays are shared.",
     ["that memoised values are correct", "thread interleavings (excluded by the property)"],
     COMMON_ASSUMPTIONS)

prop("C02",
     ["OW1", "OW2", "HD1", "RJ1", "OW4", "IN1", "IN2", "PV1", "EQ1"],
     "The inheritance mechanism is a sharing discipline: object lists and segment objects are shared between segments. Decided: "
     "(OW1) every store to a segment object's slots goes through an object created in the same activation (alias analysis; who-may-write), "
     "(OW2) typestate of self.ordered_objects: mutated only after a fresh copy, helpers called only from the parser, shared index "
     "dictionaries read-only, cache-key equality ordered and pairwise, (HD1) for each header kind x previous has_data value the object "
     "left in the list has the has_data the header demands (path-sensitive abstract interpretation), (RJ1) the three forbidden "
     "encodings raise, (IN1) the previous segment's list and index are read only on paths closed to a segment with a new object list, (OW4) per-segment memo fields (chunk size and the like) have a single writer and are never inherited.",
     ["that the carried-over index values are the right ones for arbitrary histories", "lengths and data values"],
     COMMON_ASSUMPTIONS)

prop("C13",
     ["OW3", "SD1", "NS1", "ST1", "AO1", "SF1"],
     "Dispatch/arity and operand order of the scale-graph evaluator, number-of-scales inference shape, status test placement, "
     "channel->group->file lookup order with each scope read from the complete property map. Purity: alias/in-place analysis of every scale method and the helpers it hands data to (astype(copy=False), views, out=, "
     "augmented assignment, mutating methods, interprocedural summaries).",
     ["numerical equality of each formula with its defining formula", "graph evaluation on concrete properties"],
     COMMON_ASSUMPTIONS)

prop("C14",
     ["DT1", "DT2", "DT3", "DT4", "LN1", "NK2", "SF1", "DL1", "MP3", "SD1"],
     "Abstract dtype interpretation of every scale method over dtype witnesses (zero-length arrays, Python-scalar coefficients; NumPy as "
     "oracle of its own promotion rules) against the table read from MultiScaling._compute_scale_dtype, for every scaling class x real "
     "numeric raw dtype (thorough: both byte orders, NumPy-scalar coefficients, all Add/Subtract pairs); dtype source of every empty "
     "result per accessor kind; raw dtype table vs receivers; native byte-order normalisation where raw arrays are created; single "
     "funnel for value counts; the timestamp conversion is EPOCH + seconds + fractions * one unit of the requested resolution on every path "
     "(so its dtype is not data dependent).",
     ["that len() equals the number of values actually decoded for arbitrary files (run-time)",
      "complex and boolean raw types under scaling", "raw_timestamps=True (exempt by the property)"],
     COMMON_ASSUMPTIONS + ["scaling coefficients read from a file are Python scalars (StructType.read returns struct.unpack results)"])

prop("C08",
     ["BL5", "BL6", "PO1", "WT1", "BL2", "NT1", "MS1"],
     "Every clause is an agreement between a length field and the bytes behind it, i.e. between two expressions in the writer: string "
     "length prefix, raw-data-index length per path (k == 4 + sum of field sizes), lead-in offsets (metadata_size + data size, measured on "
     "the list that is written, written in order), declared data size vs written data (same object predicate, same string encoding, 4-byte "
     "offsets), index twin (is_index_file influences only the tag and the raw-data guard; same objects/version; own stream), parents-first "
     "ordering and written-state updated only after the writes, ToC flags, path components never tested by truthiness (an empty name is a name).",
     ["objects that do not follow the TdmsObject protocol (path, properties, data)"],
     COMMON_ASSUMPTIONS)

prop("C01",
     ["TD1", "BL1", "BL2", "BL3", "PR1", "GR1", "UD1", "OW4", "NK2", "PV1", "PT3", "EQ1"],
     "Type x layout dispatch exhaustiveness over the 17 admitted channel types and every decoder branch; every fixed-size record "
     "unpacked with a format of exactly the size read; type-table consistency; byte-order threading; insertion-ordered containers "
     "filled in file order with last-value-wins properties and once-per-segment updates; groups never replaced during the object "
     "walk; strings cut at byte offsets before decoding; per-segment memo fields single-writer; the array and the scalar timestamp "
     "conversion are the same computation (no reinterpretation that drops the field's byte order).",
     ["bit-exact values", "chunk-count arithmetic (_calculate_chunks)", "concatenation order across chunks"],
     COMMON_ASSUMPTIONS)

prop("C03",
     ["MP1", "MP3", "TS1", "OFS1", "LN1", "BL3", "BL4", "CE1", "IN1", "SZ1", "OW3"],
     "One timestamp-representation switch on every reader->user path; scaling applied exactly once by scaled accessors and never by raw "
     "ones, sibling three-way decisions agree; a channel without data type never reaches the reader in eager mode; chunk offsets are "
     "snapshots of the running count; one funnel for value counts; byte order and timestamp layout threaded on every decoder path; "
     "the per-channel offset arrays the lazy paths index with are shared only after an element-complete comparison.",
     ["equality of values across access paths for arbitrary files", "memmap equivalence", "integer/slice accesses of zero-length channels"],
     COMMON_ASSUMPTIONS)

prop("C04",
     ["CS1", "ES1", "CS2", "NT1", "BD1", "CE1", "OW2", "LN1"],
     "Shape conditions of the window arithmetic only: the per-segment counts of the offset index come from the one counting function, each "
     "computed in its own round of the loop over the segments; positional loop counters advanced on every path (continue included), segment numbering "
     "starts at the window's first segment with first/last-segment adjustments present, data and scaler arrays sliced alike, optional "
     "arguments tested with `is None`, chunk offset/count passed to the segment reader depend on the window start/end with truncated-final-chunk "
     "awareness, offset arrays shared only after an element-complete comparison, path->position dictionaries shared only between object "
     "lists that are equal in order (cache key compared pairwise).",
     ["that _read_slice equals NumPy slicing", "searchsorted side choices", "the skip/trim arithmetic itself"],
     COMMON_ASSUMPTIONS)

prop("C09",
     ["MP2", "TM1", "CO1", "DF1", "MP4", "NC1", "BL6"],
     "Tag check dominating every segment data read; ToC mask parsed little-endian; coordinate-space analysis of the seeks while parsing the "
     "index stream and reaching the next lead-in on every iteration; index/data mode passed explicitly and selecting the tag; index-only "
     "detection evaluated over the constructor's four input scenarios and guarding every data path; None-check contradiction on the data "
     "file size.",
     ["equality of the two parses for arbitrary files", "correctness of the clamp for incomplete last segments"],
     COMMON_ASSUMPTIONS)

prop("C10",
     ["KC1", "TD2", "TS1", "BL4", "BL5", "BL6", "TW1", "DTA"],
     "Call-site constants and role pairing of defragment (raw timestamps, raw data, names/properties of the same object, unfiltered loop "
     "nest with every group and channel written), writer dispatch totality for every type the writer can choose (Void excluded from size "
     "arithmetic), no-type channels never reach the closed reader, raw timestamp layout, declared sizes equal written sizes, faithful index twin, "
     "no lossy datetime64 conversion of raw timestamp records on the writer side.",
     ["bit-identity of values and properties for arbitrary files"],
     COMMON_ASSUMPTIONS)

prop("C19",
     ["CG1", "GD1", "BD1", "CH1", "NT1", "ST2"],
     "Code shape is seek-and-read-a-window, not read-everything-and-trim: whole-file/segment readers unreachable from per-channel entry points; "
     "contiguous per-channel reader reads only under the path test and skips others arithmetically; segment slice, chunk offset and chunk "
     "count depend on the request (a count of 0 chunks is tested with `is None`, not by truthiness); cache hit test two-sided on the "
     "normalised index; constant 4-byte tag read per segment; a caller's stream is read directly, not through a read-ahead wrapper.",
     ["the actual byte ranges", "minimality of the window"],
     COMMON_ASSUMPTIONS)

prop("C07",
     ["DTA", "IS1", "NK1", "BL4", "BL2", "BL5", "WT1", "UC1", "UD1", "PT1", "PT3", "EQ1"],
     "Places where writer and reader must agree on a table, threshold or layout: decision-table analysis of the integer type thresholds "
     "(every cell of the partition induced by the constants), isinstance dispatch order and mapping, exact-integer timestamp fields not routed "
     "through float64 beyond 2**53 (interval analysis), timestamp layout siblings, injective type tables, length fields, ToC flags, one codec, "
     "strings decoded per value, object names through the quote-doubling encoder and its scanner on both sides.",
     ["equality of arrays and property values", "append-mode sessions", "np.array(list) dtype inference beyond the integer table"],
     COMMON_ASSUMPTIONS)

prop("C12",
     ["NK1", "NK2", "TBf", "BL4", "TT1", "TW1"],
     "Encoder arithmetic interval analysis (float64 beyond 2**53), scalar/array conversion siblings normalised and compared, fraction "
     "constants and epochs folded and compared exactly, timestamp layout siblings, absolute time track derived from the relative one.",
     ["'within one unit' and monotonicity of the float conversion (numerical)", "time_track values"],
     COMMON_ASSUMPTIONS)

prop("C16",
     ["PT1", "PT2", "PT3", "PT4", "NT1"],
     "The discipline that makes the encoder/scanner pair the only place where names and paths meet: every path producer goes through the "
     "quote-doubling encoder (shape checked: separator + join of quote + replace(quote, doubled) + quote, components present iff not None), "
     "no hand-formatted paths, no ad-hoc parsing (split/strip/positional slicing), scanner alphabet = encoder alphabet with the doubled quote "
     "consumed as one, name-keyed and path-keyed maps indexed with the right kind of key.",
     ["decode(encode(g, c)) == (g, c) for all strings (a semantic fact about the scanner; needs enumeration of strings, another family)"],
     COMMON_ASSUMPTIONS)

prop("C18",
     ["TB1", "TB2", "TB3", "TB4", "TB5", "OW3"],
     "The thermocouple module is data in source form plus a four-function evaluator. Decided: each table partitions the real line (totality with "
     "the inclusive-start/exclusive-end membership test, nothing but the unreachable default yields NaN), conditions/functions built from the "
     "same list, ascending-order polynomial evaluation, forward coefficients/boundaries/exponential constants equal the vendored NIST ITS-90 "
     "tables (thorough: cross-checked against the copy in /venv), inverse tables equal the reviewed transcription of the pinned tree, NI type "
     "codes -> tables of the same letter, direction and microvolt factors.",
     ["monotonicity and the dense-grid clauses (numerical)", "that the NIST inverse polynomials meet their stated error (trusted: NIST)"],
     COMMON_ASSUMPTIONS + ["sa/refdata/nist_its90_forward.json is a faithful transcription of NIST SRD 60 (cross-checked by ast against thermocouples_reference in the thorough tier)",
                           "sa/refdata/nist_its90_inverse_pinned.json was transcribed from the pinned tree (no independent offline source); tools/vendor_nist.py printed a one-off "
                           "inverse(forward(T)) consistency report at vendoring time"])

prop("C11",
     ["BL1", "BL2", "BL3", "TD1", "SR1", "TR1", "TR2", "TR3", "DL1", "SB1", "SZ1"],
     "The agreements the DAQmx index arithmetic rests on: record sizes vs formats, scaler type-code table, byte order threaded through "
     "every DAQmx parse site and decoder, sibling interface of the scaler classes and agreement of the three header sets, (length, width) "
     "role flow from get_buffer_dimensions into reads and seeks, scaler values = byte columns [offset, offset+size) of their own buffer, "
     "digital-line bit addressing, truncation loops stop at the first incomplete buffer.",
     ["the decoded values", "truncated-final-chunk row counts", "equality of lazy windows with eager slices"],
     COMMON_ASSUMPTIONS)

# ---------------------------------------------------------------------------
# MANIFEST texts
LEVEL_TEXT = {
    "C20": "Claim (structural): exhaustive static resource-lifecycle analysis of every open()/close() site and every exit "
           "(normal and exceptional) of the functions that own file handles. The property is a pairing/ordering property "
           "whose truth is in the shape of the code on every path, which is what a CFG analysis enumerates completely and a "
           "test cannot (one path per malformed input).",
}
LEVEL_TEXT["C15"] = ("Claim (structural): byte order is threaded by hand through every parser; the checker enumerates all parse sites "
                     "(formats, defaulted endianness arguments, dtypes, derivations) and decides each by interprocedural dataflow of the "
                     "endianness value. A missed site affects one field of one record kind and is invisible to a suite with one big-endian file.")
LEVEL_TEXT["C05"] = ("Claim (structural): independence of reads is a typestate property of generator code (position unknown after each "
                     "yield of the entry generator), decided for every path through the reader chain and all three data-reader classes; a test "
                     "must guess an interleaving, the analysis quantifies over all of them.")
LEVEL_TEXT["C02"] = ("Partial claim (structural necessary conditions): copy-on-write and object-list sharing discipline, has_data typestate per "
                     "header kind, rejection of forbidden encodings. A wrong copy/alias only shows on specific segment sequences; the alias "
                     "and typestate analyses cover every path of the parser instead.")
LEVEL_TEXT["C13"] = ("Partial claim: purity (never modifies raw data), dispatch/arity, lookup order and application points of scaling are decided "
                     "structurally; numerical equality of formulas is not.")
LEVEL_TEXT["C14"] = ("Claim (structural): channel.dtype is computed symbolically while the data's dtype is whatever NumPy promotion produces; the "
                     "abstract dtype interpreter covers every raw type x scale class pair (the suite builds a few), and the empty-result, "
                     "receiver-table, byte-order and length-funnel rules cover the remaining clauses.")
LEVEL_TEXT["C08"] = ("Claim (structural): length fields vs the bytes that follow are pairs of expressions in one module; the checker resolves "
                     "both sides (type sizes from the type table, field lists per path) and compares them for every path, which an "
                     "example-based comparison of serialised segments cannot do for arbitrary inputs.")
for _pid, _txt in {
    "C01": "Partial claim (structural necessary conditions of faithful decoding): exhaustive type x layout dispatch, size/format agreement, table consistency, byte-order threading, container ordering discipline.",
    "C03": "Partial claim: the places where access paths can diverge structurally (representation switch, scaling application, mode sentinel, offset snapshot, length funnel) are enumerated and decided; value equality is not.",
    "C04": "Partial, narrow claim: window arithmetic is numeric; only its shape conditions are decided (see not_decided).",
    "C09": "Partial claim: position translation, tag checks, mode flags and the index-only guard are decided structurally; equality of the two parses is not.",
    "C10": "Partial claim: defragment composes reader and writer; decided are the call-site constants/roles and the dispatch totality both sides rest on.",
    "C19": "Partial claim: byte counts are run-time; decided is that the code has the bounded-window shape (reachability, guarded reads, request-dependent bounds, cache test).",
}.items():
    LEVEL_TEXT[_pid] = _txt
LEVEL_TEXT["C06"] = ("Partial, narrow claim (structural necessary conditions only): prefix-ness for every cut offset is run-time arithmetic and is NOT decided. "
                     "Decided is the shape of the truncation machinery every such read goes through: where a segment is taken to end and when it is flagged "
                     "incomplete (all scenarios of marker x known size x claimed end), that a torn lead-in or torn metadata ends the scan instead of being parsed, "
                     "that a short final chunk is distributed front to back and stops at the first incomplete channel/buffer, and that lengths and windows go "
                     "through the one counting function that knows the short chunk.")
LEVEL_TEXT["C07"] = "Partial claim: round-trip equality is not a static target; decided are the tables, thresholds, layouts and exact-integer paths writer and reader must agree on."
LEVEL_TEXT["C12"] = "Partial claim: the exactness clause is decided by interval analysis of the encoder (float64 cannot hold integers beyond 2**53); sibling and constant checks; numerical clauses are not decided."
LEVEL_TEXT["C16"] = "Partial claim: the taint-style discipline around the path grammar is decided (who produces paths, who parses them, alphabet agreement, key spaces); inverse-ness of the scanner for all strings is not."
LEVEL_TEXT["C18"] = "Partial claim: tables are a legitimate object of static checking (constant extraction and comparison against the standard's tables); the evaluator's shape is decided; numerical clauses are not."
LEVEL_TEXT["C11"] = "Partial claim: decoding is index arithmetic over run-time widths and offsets; decided are the layout, dispatch, role-flow and loop-shape agreements that arithmetic rests on."
TECHNIQUE = {
    "C11": "static analysis: size/format agreement, endianness dataflow, registry sibling-interface check, role inference (rows/width/bytes) by unification, column selection in symbolic normal form, mask constants against every declared integer type",
    "C18": "static analysis: constant-table extraction and comparison with vendored NIST tables, partition/totality check, unit-exponent flow",
    "C16": "static analysis: string-kind inference (NAME / PATH / ObjectPath) by unification seeded by the encoder and the scanner, encoder compared in symbolic normal form, alphabet agreement, truthiness lint on path components",
    "C07": "static analysis: decision-table analysis over threshold-induced cells, interval/numeric-kind analysis, table and layout agreement",
    "C12": "static analysis: interval/numeric-kind analysis of the encoder, sibling expression normalisation, constant folding",
    "C01": "static analysis: dispatch exhaustiveness over the class hierarchy, size/format agreement, endianness dataflow, container discipline",
    "C03": "static analysis: must-pass-through on CFGs, sibling comparison, abstract state reachability, escape analysis of the offset accumulator",
    "C04": "static analysis: loop-carried counter path rule, dependence analysis of window bounds, None-vs-falsy lint on a frozen parameter table",
    "C09": "static analysis: dominance of tag checks, coordinate-space typing of seek targets, scenario evaluation of constructor stores, None-contradiction rule",
    "C10": "static analysis: call-site constant/role checks, CFG must-pass in the copy loops, writer dispatch totality",
    "C19": "static analysis: call-graph unreachability, control dependence of reads, data dependence of window bounds across helpers and generators, cache hit test in symbolic normal form, stream-as-supplied rule",
    "C08": "static analysis: expression/size agreement per CFG path, influence set of is_index_file, dominance of state updates by the writes",
    "C14": "static analysis: abstract interpretation over a dtype lattice (NumPy as promotion oracle), table extraction and comparison, dataflow of dtype sources",
    "C02": "static analysis: alias/freshness dataflow, typestate abstract interpretation of the object list and has_data, control-dependence of raises, reachability of inheritance sites under the new-object-list flag, single-writer memo fields",
    "C13": "static analysis: interprocedural alias and in-place effect analysis; dispatch and role-flow rules",
    "C06": "static analysis: scenario evaluation of symbolic normal forms (segment end / incomplete flag / EOFError guards under marker x size x ordering oracles), exception-handler structure of the segment loop, CFG rule on the truncated-chunk budget loops, data-dependence rules on the counting function",
    "C05": "static analysis: typestate (cursor P/U) abstract interpretation with generator continuations, single-writer and cache-pairing rules",
    "C15": "static analysis: interprocedural endianness dataflow over the call graph, default-argument trap, layout sibling comparison",
    "C20": "static analysis: CFG with exceptional edges, must-pass-through / dominance queries, path-sensitive resource interpreter over input scenarios (package context managers interpreted), ownership (who-may-open/close) rules",
}
NOT_APPLICABLE = {
    "C06": "quantifies over every byte offset of every file; prefix-ness depends on run-time remainders and short reads "
           "(total_data_size % chunk_size, bytes returned by readinto); no structural necessary condition specific to it - "
           "needs exhaustive cutting of generated files, i.e. another technique family (DESIGN.md section 4, C06)",
    "C17": "numerical: floating-point formulas must equal the inverse of physical laws to 1e-6 for every parameter set; the truth "
           "is not in the shape of the code (needs computer algebra or evaluation); structural facts about these classes "
           "(purity, result dtype) are claimed under C13/C14 (DESIGN.md section 4, C17)",
}


prop("C06",
     ["TC1", "TC2", "SB1", "LN1", "BD1"],
     "The structural part of reading a file that was cut short: (TC1) the end of a segment and its incomplete flag, evaluated in normal form under "
     "every scenario of 'length unknown' marker x data file size known x claimed end before/at/beyond the end of the file; (TC2) a short lead-in read "
     "and metadata that is not completely in the file raise EOFError, which ends the scan of the file without recording the torn segment; (SB1) the bytes "
     "of a short final chunk are given to buffers/channels in order, the first incomplete one gets remaining // width values and nothing after it gets any; "
     "(LN1) len(channel) and the lazy index count values through the one function that knows the short final chunk; (BD1) windowed reads account for a "
     "truncated final chunk.",
     ["that the values returned are a prefix for every cut offset of every file (run-time arithmetic on remainders and short reads)",
      "strings in multi-chunk truncated segments (excluded by the property)", "short reads inside np.fromfile / readinto"],
     COMMON_ASSUMPTIONS)
