"""BL1-BL4: binary layout agreement and endianness threading on the read side
(properties C01, C11, C15; BL4 also C07, C12)."""
import ast
import struct

from .registry import rule
from .core import (call_name, dotted, walk_shallow, walk_body, unparse, AnchorMissing, np_dtype_of)

READ_SIDE = ("reader", "tdms_segment", "types", "daqmx", "base_segment")
UNPACK_NAMES = ("_struct_unpack", "struct.unpack")
PACK_NAMES = ("_struct_pack", "struct.pack")
STRUCT_KIND = {"b": "i1", "h": "i2", "l": "i4", "q": "i8", "B": "u1", "H": "u2", "L": "u4", "Q": "u8", "f": "f4", "d": "f8"}


def _funcs_in(prog, modules):
    return sorted((f for f in prog.functions.values() if f.module.name in modules), key=lambda f: f.qual)


def _local_defs(fnode, name):
    """Value expressions assigned to local `name` anywhere in the function (flow-insensitive),
    including tuple-unpacking targets (value returned as ('tuple', value_expr, index))."""
    out = []
    for n in walk_body(fnode):
        if isinstance(n, ast.Assign):
            for t in n.targets:
                if isinstance(t, ast.Name) and t.id == name:
                    out.append(n.value)
                elif isinstance(t, (ast.Tuple, ast.List)):
                    for i, e in enumerate(t.elts):
                        if isinstance(e, ast.Name) and e.id == name:
                            out.append(("tuple", n.value, i))
        elif isinstance(n, ast.AugAssign) and isinstance(n.target, ast.Name) and n.target.id == name:
            out.append(n.value)
        elif isinstance(n, (ast.For, ast.comprehension)):
            tgt = n.target
            for e in ast.walk(tgt):
                if isinstance(e, ast.Name) and e.id == name:
                    out.append(("iter", n.iter, 0))
    return out


def _format_parts(expr, fi=None, depth=0):
    """Split a format expression into (prefix_expr or None, literal_body or None).
    A local name holding the format is resolved to its (single) definition first."""
    if isinstance(expr, ast.Name) and fi is not None and depth < 3 and expr.id not in fi.params:
        defs = [d for d in _local_defs(fi.node, expr.id) if not isinstance(d, tuple)]
        if len(defs) == 1:
            return _format_parts(defs[0], fi, depth + 1)
        if len(defs) == 2 and all(isinstance(d, (ast.BinOp, ast.Constant)) for d in defs):
            # e.g. one format per byte-order branch: handled by the caller through the IfExp form
            return None, expr
    if isinstance(expr, ast.IfExp) and fi is not None:
        return None, expr
    if isinstance(expr, ast.Constant) and isinstance(expr.value, str):
        return None, expr.value
    if isinstance(expr, ast.BinOp) and isinstance(expr.op, ast.Add):
        if isinstance(expr.right, ast.Constant) and isinstance(expr.right.value, str):
            return expr.left, expr.right.value
        # endianness + cls.struct_declaration
        return expr.left, expr.right
    if isinstance(expr, ast.JoinedStr) and expr.values and isinstance(expr.values[0], ast.FormattedValue):
        rest = expr.values[1:]
        if all(isinstance(v, ast.Constant) for v in rest):
            return expr.values[0].value, "".join(v.value for v in rest)
        # f"{endianness}{count}L": a repeat count in the body reads as a number
        return expr.values[0].value, "".join(v.value if isinstance(v, ast.Constant) else "1" for v in rest)
    if isinstance(expr, ast.JoinedStr) and expr.values and isinstance(expr.values[0], ast.Constant) and isinstance(expr.values[0].value, str):
        # f"<{count}L": constant prefix, repeat counts read as numbers
        return None, "".join(v.value if isinstance(v, ast.Constant) else "1" for v in expr.values)
    if isinstance(expr, ast.BinOp) and isinstance(expr.op, ast.Mod) and isinstance(expr.left, ast.Constant) and isinstance(expr.left.value, str):
        # '%s%dL' % (endianness, n)  /  '<%dL' % n : printf-style templates; numeric conversions are repeat counts
        import re as _re
        tmpl = expr.left.value
        args = list(expr.right.elts) if isinstance(expr.right, ast.Tuple) else [expr.right]
        convs = _re.findall(r"%[-0-9.]*([sdiu])", tmpl)
        if len(convs) == len(args):
            if tmpl.startswith("%s"):
                body = _re.sub(r"%[-0-9.]*[diu]", "1", tmpl[2:])
                if "%" not in body:
                    return args[0], body
            elif convs and "s" not in convs:
                body = _re.sub(r"%[-0-9.]*[diu]", "1", tmpl)
                if "%" not in body:
                    return None, body
            elif convs and tmpl[:1] in "<>=!@":
                # constant byte-order prefix; a %s that stands for a type's struct code is some (possibly multi-byte) field
                body = _re.sub(r"%[-0-9.]*[diu]", "1", tmpl)
                body = _re.sub(r"%[-0-9.]*s", "L", body)
                if "%" not in body:
                    return None, body
    if isinstance(expr, ast.Call) and isinstance(expr.func, ast.Attribute) and expr.func.attr == "format" and isinstance(expr.func.value, ast.Constant) \
            and isinstance(expr.func.value.value, str) and not expr.keywords:
        import re as _re
        tmpl = expr.func.value.value
        holes = _re.findall(r"\{[^{}]*\}", tmpl)
        if len(holes) == len(expr.args) and holes:
            if tmpl.startswith(holes[0]):
                body = tmpl[len(holes[0]):]
                for h in holes[1:]:
                    body = body.replace(h, "1", 1)
                return expr.args[0], body
            if tmpl[:1] in "<>=!@":
                body = tmpl
                for h in holes:
                    body = body.replace(h, "1", 1)
                return None, body
    return None, None


def _be_test(test):
    """test is  MASK & toc_properties['kTocBigEndian']  (optionally `!= 0` / bool(...)).  -> (mask expr, flag name) or None"""
    t = test
    if isinstance(t, ast.Call) and call_name(t) == "bool" and t.args:
        t = t.args[0]
    if isinstance(t, ast.Compare) and len(t.ops) == 1 and isinstance(t.ops[0], ast.NotEq) \
            and isinstance(t.comparators[0], ast.Constant) and t.comparators[0].value == 0:
        t = t.left
    if not (isinstance(t, ast.BinOp) and isinstance(t.op, ast.BitAnd)):
        return None
    sides = [t.left, t.right]
    flag = [x for x in sides if isinstance(x, ast.Subscript) and (dotted(x.value) or "").endswith("toc_properties")
            and isinstance(x.slice, ast.Constant)]
    if not flag:
        return None
    mask = [x for x in sides if x is not flag[0]][0]
    return mask, flag[0].slice.value


def _const(e):
    return e.value if isinstance(e, ast.Constant) else None


def statement_derivation(stmts, name=None):
    """Recognise  if <big-endian test>: X = '>' else: X = '<'   (X a name) or the same with `return`.
    -> (mask, flagname, value_if_set, value_if_clear) or None"""
    default = None
    for s in stmts:
        if isinstance(s, ast.Assign) and name is not None and len(s.targets) == 1 and isinstance(s.targets[0], ast.Name) \
                and s.targets[0].id == name and _const(s.value) in ("<", ">"):
            default = _const(s.value)
        if isinstance(s, ast.If):
            bt = _be_test(s.test)
            if bt is None:
                continue

            def val(block):
                for x in block:
                    if name is not None and isinstance(x, ast.Assign) and len(x.targets) == 1 and isinstance(x.targets[0], ast.Name) \
                            and x.targets[0].id == name:
                        return _const(x.value)
                    if name is None and isinstance(x, ast.Return):
                        return _const(x.value)
                return None
            a, b = val(s.body), val(s.orelse)
            if b is None:
                if name is None:
                    # if test: return '>'  ;  return '<'
                    idx = stmts.index(s)
                    for x in stmts[idx + 1:]:
                        if isinstance(x, ast.Return):
                            b = _const(x.value)
                            break
                else:
                    b = default
            if a is not None and b is not None:
                return bt[0], bt[1], a, b
    return None


def is_big_endian_derivation(prog, mod, expr):
    """expr is  '>' if (MASK & toc_properties['kTocBigEndian']) else '<'.
    -> (True, mask_expr, polarity_ok) or (False, None, None)"""
    if not isinstance(expr, ast.IfExp):
        return False, None, None
    bt = _be_test(expr.test)
    if bt is None:
        return False, None, None
    mask, flagname = bt
    polarity_ok = (flagname == "kTocBigEndian" and _const(expr.body) == ">" and _const(expr.orelse) == "<")
    return True, mask, polarity_ok


class EndianFlow:
    """Interprocedural 'endianness-valued' classification.

    A parameter is endianness-like when it flows into a struct format prefix, into
    .newbyteorder(), is compared with '<'/'>', or is passed on to an endianness-like
    parameter.  An argument expression is *derived* when it is an own-mask derivation,
    an endianness-like parameter of the enclosing function, or self.<attr> where the
    class stores that attribute only from an endianness-like constructor parameter."""

    def __init__(self, ctx):
        self.ctx = ctx
        self.prog = ctx.prog
        self.cg = ctx.callgraph()
        self.like = set()      # (func qual, param name)
        self._compute()

    def _param_uses(self, fi, p):
        """direct endianness uses of parameter p in fi"""
        for n in walk_body(fi.node):
            if isinstance(n, ast.Call):
                cn = call_name(n)
                if cn in UNPACK_NAMES and n.args:
                    pre, _ = _format_parts(n.args[0], fi)
                    if isinstance(pre, ast.Name) and pre.id == p:
                        return True
                if isinstance(n.func, ast.Attribute) and n.func.attr == "newbyteorder" and n.args \
                        and isinstance(n.args[0], ast.Name) and n.args[0].id == p:
                    return True
            if isinstance(n, ast.Compare) and isinstance(n.left, ast.Name) and n.left.id == p \
                    and len(n.comparators) == 1 and isinstance(n.comparators[0], ast.Constant) \
                    and n.comparators[0].value in ("<", ">"):
                return True
        return False

    def _compute(self):
        prog = self.prog
        funcs = [f for f in prog.functions.values()]
        for fi in funcs:
            for p in fi.params:
                if p in ("self", "cls"):
                    continue
                if self._param_uses(fi, p):
                    self.like.add((fi.qual, p))
                d = fi.defaults.get(p)
                if isinstance(d, ast.Constant) and d.value in ("<", ">"):
                    self.like.add((fi.qual, p))
        # fixpoint: attributes used in endianness positions, parameters stored into them,
        # parameters passed on to endianness-like parameters
        self.like_attrs = set()
        changed = True
        while changed:
            changed = False
            for fi in funcs:
                for e in self.cg.callees(fi.qual):
                    if e.kind in ("prop", "prop-byname") or not isinstance(e.node, ast.Call):
                        continue
                    callee = prog.functions[e.callee]
                    for pname, arg in self._bind(callee, e.node, e.kind):
                        if (callee.qual, pname) not in self.like:
                            continue
                        if isinstance(arg, ast.Name) and arg.id in fi.params and (fi.qual, arg.id) not in self.like:
                            self.like.add((fi.qual, arg.id))
                            changed = True
                        if isinstance(arg, ast.Attribute) and dotted(arg.value) == "self" and arg.attr not in self.like_attrs:
                            self.like_attrs.add(arg.attr)
                            changed = True
                for n in walk_body(fi.node):
                    if isinstance(n, ast.Call):
                        cn = call_name(n)
                        cand = None
                        if cn in UNPACK_NAMES and n.args:
                            cand, _ = _format_parts(n.args[0], fi)
                        elif isinstance(n.func, ast.Attribute) and n.func.attr == "newbyteorder" and n.args:
                            cand = n.args[0]
                        if isinstance(cand, ast.Attribute) and dotted(cand.value) == "self" and cand.attr not in self.like_attrs:
                            self.like_attrs.add(cand.attr)
                            changed = True
                    if isinstance(n, ast.Assign) and len(n.targets) == 1 and fi.cls is not None:
                        t = n.targets[0]
                        if isinstance(t, ast.Attribute) and t.attr in self.like_attrs and isinstance(n.value, ast.Name) \
                                and n.value.id in fi.params and (fi.qual, n.value.id) not in self.like:
                            self.like.add((fi.qual, n.value.id))
                            changed = True
        # collect all stores to endianness-like attributes (any receiver)
        self.attr_stores = []
        for fi in funcs:
            for n in walk_body(fi.node):
                if isinstance(n, ast.Assign):
                    for t in n.targets:
                        if isinstance(t, ast.Attribute) and t.attr in self.like_attrs:
                            self.attr_stores.append((fi, t, n.value))

    def _bind(self, callee, call, kind):
        """(param name, arg expr) pairs for a call of `callee` (drops self/cls for bound calls)."""
        params = list(callee.params)
        if callee.cls is not None and not callee.is_static and params and params[0] in ("self", "cls"):
            params = params[1:]
        if kind == "ctor" and params and params[0] == "cls":
            params = params[1:]
        out = []
        for i, a in enumerate(call.args):
            if isinstance(a, ast.Starred):
                break
            if i < len(params):
                out.append((params[i], a))
        for k in call.keywords:
            if k.arg is not None:
                out.append((k.arg, k.value))
        return out

    def _blocks(self, fnode):
        out = [fnode.body]
        for n in walk_body(fnode):
            for f in ("body", "orelse", "finalbody"):
                b = getattr(n, f, None)
                if isinstance(b, list) and b and isinstance(b[0], ast.stmt):
                    out.append(b)
            for h in getattr(n, "handlers", []) or []:
                out.append(h.body)
        return out

    def _resolve_helper(self, fi, call):
        """package function / method of the same class called by `call` (single target), or None"""
        f = call.func
        if isinstance(f, ast.Attribute) and dotted(f.value) in ("self", "cls") and fi.cls is not None:
            found = self.prog.lookup(fi.cls, f.attr)
            return found[2] if found and found[0] == "method" else None
        r = self.prog.resolve_expr(fi.module, f) if isinstance(f, (ast.Name, ast.Attribute)) else None
        if r and r[0] == "func":
            return r[1]
        return None

    def _check_pattern(self, fi, mask, flag, a, b, what):
        if not (flag == "kTocBigEndian" and a == ">" and b == "<"):
            return False, "byte-order derivation %s has the wrong flag or polarity (flag %s: %r if set else %r)" % (what, flag, a, b)
        ok = self.own_mask(fi, mask)
        return (ok, "derived from the segment's own ToC mask" if ok else "ToC mask `%s` is not the segment's own mask" % unparse(mask))

    def derived(self, fi, expr, depth=0):
        """-> (True, why) / (False, why)"""
        prog = self.prog
        if depth > 6:
            return False, "too deep"
        # symbolic form first: a derivation written as a conditional, an if statement, a lookup table or a helper
        if isinstance(expr, (ast.Name, ast.Call, ast.IfExp, ast.Subscript)) and not (isinstance(expr, ast.Name) and expr.id in fi.params):
            try:
                from .sym import Sym
                sy = Sym(prog, fi, fi.cls)
                env, _g = sy.env_at(expr)
                v = sy.expr(expr, env)
                cd = canonical_derivation(v, prog, fi.module)
            except Exception:
                cd = None
            if cd is not None:
                mask, flag, a, b = cd
                if not (flag == "kTocBigEndian" and a == ">" and b == "<"):
                    return False, "byte-order derivation has the wrong flag or polarity (flag %s: %r if set else %r)" % (flag, a, b)
                ok = own_mask_canon(self.ctx, fi, mask)
                return (ok, "derived from the segment's own ToC mask" if ok else "the ToC mask used is not the segment's own mask")
        if isinstance(expr, ast.Name):
            if expr.id in fi.params:
                if (fi.qual, expr.id) in self.like:
                    return True, "endianness parameter %s" % expr.id
                return False, "parameter %s is not endianness-valued" % expr.id
            for blk in self._blocks(fi.node):
                sd = statement_derivation(blk, expr.id)
                if sd is not None:
                    return self._check_pattern(fi, sd[0], sd[1], sd[2], sd[3], "of `%s`" % expr.id)
            defs = _local_defs(fi.node, expr.id)
            if not defs:
                # a module-level constant naming a byte order:  LITTLE_ENDIAN = '<'   (the value decides, as for a literal)
                v_ = prog.try_fold(expr, fi.module, default=None)
                if v_ in ("<", ">"):
                    return self.derived(fi, ast.copy_location(ast.Constant(value=v_), expr), depth + 1)
                return False, "name %s has no definition" % expr.id
            for d in defs:
                if isinstance(d, tuple):
                    return False, "%s is unpacked from %s" % (expr.id, unparse(d[1]))
                ok, why = self.derived(fi, d, depth + 1)
                if not ok:
                    return False, "%s = %s: %s" % (expr.id, unparse(d), why)
            return True, "local %s" % expr.id
        is_der, mask, pol = is_big_endian_derivation(prog, fi.module, expr)
        if is_der:
            if not pol:
                return False, "byte-order derivation `%s` has the wrong flag or polarity" % unparse(expr)
            ok = self.own_mask(fi, mask)
            return (ok, "derived from the segment's own ToC mask" if ok else
                    "ToC mask `%s` is not the segment's own mask" % unparse(mask))
        if isinstance(expr, ast.Call):
            g = self._resolve_helper(fi, expr)
            if g is not None and not g.is_generator:
                # helper that maps a ToC mask to '>' / '<'
                pat = None
                rets = [n for n in walk_body(g.node) if isinstance(n, ast.Return) and n.value is not None]
                if len(rets) == 1:
                    d3 = is_big_endian_derivation(prog, g.module, rets[0].value)
                    if d3[0]:
                        pat = (d3[1], "kTocBigEndian" if d3[2] else "?", ">" if d3[2] else "?", "<" if d3[2] else "?")
                    elif isinstance(rets[0].value, ast.Name):
                        for blk in self._blocks(g.node):
                            sd = statement_derivation(blk, rets[0].value.id)
                            if sd is not None:
                                pat = sd
                if pat is None:
                    for blk in self._blocks(g.node):
                        sd = statement_derivation(blk, None)
                        if sd is not None:
                            pat = sd
                if pat is not None:
                    mask = pat[0]
                    bound = dict(self._bind(g, expr, "direct"))
                    if isinstance(mask, ast.Name) and mask.id in bound:
                        if not (pat[1] == "kTocBigEndian" and pat[2] == ">" and pat[3] == "<"):
                            return False, "helper %s derives the byte order with the wrong flag or polarity" % g.qual
                        ok = self.own_mask(fi, bound[mask.id])
                        return (ok, "helper %s applied to the segment's own ToC mask" % g.qual if ok else
                                "helper %s is applied to `%s`, which is not the segment's own ToC mask" % (g.qual, unparse(bound[mask.id])))
                    if dotted(mask) == "self.toc_mask" and isinstance(expr.func, ast.Attribute) and dotted(expr.func.value) == "self":
                        good = pat[1] == "kTocBigEndian" and pat[2] == ">" and pat[3] == "<"
                        return (good, "method %s derives it from self.toc_mask" % g.qual if good else "helper %s has the wrong flag or polarity" % g.qual)
                # generic helper: every return must be derived inside the helper, with its parameters bound to derived arguments
                if rets:
                    bound = dict(self._bind(g, expr, "direct"))
                    for r_ in rets:
                        v = r_.value
                        if isinstance(v, ast.Name) and v.id in bound:
                            ok, why = self.derived(fi, bound[v.id], depth + 1)
                        else:
                            ok, why = self.derived(g, v, depth + 1)
                        if not ok:
                            return False, "helper %s: %s" % (g.qual, why)
                    return True, "through helper %s" % g.qual
            return False, "`%s` is not derived from the segment's byte order" % unparse(expr)
        if isinstance(expr, ast.Attribute) and dotted(expr.value) == "self" and fi.cls is not None:
            if expr.attr in self.like_attrs:
                # every store to that attribute anywhere must come from an endianness parameter of an __init__
                # (an object constructed per segment read) or from the object's own ToC mask
                for (sfi, target, value) in self.attr_stores:
                    if target.attr != expr.attr:
                        continue
                    from_ctor_param = (sfi.name == "__init__" and dotted(target.value) == "self" and isinstance(value, ast.Name)
                                       and (sfi.qual, value.id) in self.like)
                    if from_ctor_param:
                        continue
                    ok2, why2 = self.derived(sfi, value, depth + 1)
                    if not (ok2 and dotted(target.value) == "self" and "own ToC mask" in why2):
                        return False, "attribute .%s is also stored in %s from `%s` (a byte order cached on an object can " \
                                      "outlive the segment it was derived from)" % (expr.attr, sfi.qual, unparse(value))
                return True, "self.%s (set from the constructor's endianness parameter only)" % expr.attr
            return False, "self.%s is not an endianness attribute" % expr.attr
        if isinstance(expr, ast.Constant):
            return False, "constant %r" % (expr.value,)
        return False, "`%s` is not derived from the segment's byte order" % unparse(expr)

    def own_mask(self, fi, mask):
        d = dotted(mask)
        if d == "self.toc_mask":
            return True
        if isinstance(mask, ast.Name):
            # local unpacked in this function from bytes just read (lead-in)
            defs = _local_defs(fi.node, mask.id)
            return bool(defs) and all(self._is_unpack_result(x) for x in defs)
        return False

    def _is_unpack_result(self, d):
        v = d[1] if isinstance(d, tuple) else d
        if isinstance(v, ast.Subscript):
            v = v.value
        return isinstance(v, ast.Call) and call_name(v) in UNPACK_NAMES


def _endian_flow(ctx):
    if not hasattr(ctx, "_endian_flow"):
        ctx._endian_flow = EndianFlow(ctx)
    return ctx._endian_flow


# ---------------------------------------------------------------------------

def _unpack_sites(prog, modules=READ_SIDE):
    out = []
    for fi in _funcs_in(prog, modules):
        for n in walk_body(fi.node):
            if isinstance(n, ast.Call) and call_name(n) in UNPACK_NAMES and len(n.args) >= 2:
                out.append((fi, n))
    return out


def _read_size_of(fi, buf_expr, prog, call=None):
    """Size in bytes of the buffer expression passed to unpack, from its normal form: X.read(N), or a constant slice of something.
    N may be a constant, a module constant, or cls.size of the class the function belongs to.  -> int, 'cls.size' or None"""
    from .sym import Sym
    sy = Sym(prog, fi, fi.cls, inline=False)
    env, _g = sy.env_at(call if call is not None else buf_expr)
    v = sy.expr(buf_expr, env)

    def const_of(x):
        if x[0] == "const" and isinstance(x[1], int) and not isinstance(x[1], bool):
            return x[1]
        if x[0] == "attr" and x[2] == "size" and x[1] in (("param", "cls"), ("name", "cls"), ("param", "self"), ("name", "self")) and fi.cls is not None:
            c = prog.class_const(fi.cls, "size")
            return c if isinstance(c, int) else "cls.size"
        if x == ("self", "size") and fi.cls is not None:
            c = prog.class_const(fi.cls, "size")
            return c if isinstance(c, int) else "cls.size"
        return None
    if v[0] == "sub" and isinstance(v[2], tuple) and v[2][0] == "slice":
        lo = 0 if v[2][1] == ("const", None) else const_of(v[2][1])
        hi = const_of(v[2][2])
        if isinstance(lo, int) and isinstance(hi, int):
            return hi - lo
        return None
    if v[0] == "method" and v[1] == "read" and len(v[3]) == 1:
        return const_of(v[3][0])
    if v[0] == "phi":
        sizes = set()
        stack = [v]
        while stack:
            x = stack.pop()
            if x[0] == "phi":
                stack += [x[2], x[3]]
            elif x[0] == "method" and x[1] == "read" and len(x[3]) == 1:
                sizes.add(const_of(x[3][0]))
            else:
                sizes.add(None)
        return sizes.pop() if len(sizes) == 1 else None
    return None


@rule("BL1", "every fixed-size record is unpacked with a format of exactly the size read", floor=12)
def bl1(ctx, R):
    prog = ctx.prog
    n_sites = 0
    for fi, call in _unpack_sites(prog):
        n_sites += 1
        pre, body = _format_parts(call.args[0], fi)
        key = "%s::unpack(%s)" % (fi.qual, unparse(call.args[0]))
        where = fi.where(call)
        size = _read_size_of(fi, call.args[1], prog, call)
        if isinstance(body, str):
            want = struct.calcsize("<" + body.lstrip("<>=!@"))
            if size is None:
                R.undecided(key, where, "size of the unpacked buffer `%s` is not a constant read/slice" % unparse(call.args[1]))
            else:
                R.check(size == want, key, where, "reads %s bytes, format needs %d" % (size, want),
                        "buffer of %s bytes is unpacked with format %r which needs %d bytes" % (size, body, want))
        elif dotted(body) == "cls.struct_declaration" and size == "cls.size":
            # generic StructType.read: instantiate per registered subclass (below)
            R.ok(key, where, "generic: file.read(cls.size) / cls.struct_declaration, instantiated per StructType subclass")
        else:
            R.undecided(key, where, "format is not endianness + literal")
    # StructType subclasses: size == calcsize(struct_declaration)
    base = prog.cls("types.StructType")
    subs = [c for c in prog.subclasses(base)]
    if not subs:
        raise AnchorMissing("subclasses of types.StructType")
    for c in sorted(subs, key=lambda c: c.qual):
        size = prog.class_const(c, "size")
        decl = prog.class_const(c, "struct_declaration")
        key = "%s::size/struct_declaration" % c.qual
        if not isinstance(size, int) or not isinstance(decl, str):
            R.violation(key, "%s:%d" % (c.module.relpath, c.node.lineno), "StructType subclass without constant size/struct_declaration "
                        "(size=%r, struct_declaration=%r): StructType.read cannot decode it" % (size, decl))
            continue
        R.check(struct.calcsize("<" + decl) == size, key, "%s:%d" % (c.module.relpath, c.node.lineno),
                "size %d == calcsize(%r)" % (size, decl),
                "size %d but struct declaration %r needs %d bytes" % (size, decl, struct.calcsize("<" + decl)))
    R.note("unpack call sites on the read side: %d" % n_sites)


@rule("BL2", "type tables are consistent (enum values, sizes, struct codes, dtypes, DAQmx codes)", floor=25)
def bl2(ctx, R):
    import numpy as np
    prog = ctx.prog
    regs = prog.tds_types()
    seen_enum = {}
    seen_np = {}
    struct_base = prog.cls("types.StructType")
    for r in regs:
        c = r["cls"]
        where = "%s:%d" % (c.module.relpath, c.node.lineno)
        key = c.qual
        if r["enum"] in seen_enum:
            R.violation(key + "::enum", where, "enum value %r registered twice (%s and %s): the later class silently replaces the "
                        "earlier one in tds_data_types" % (r["enum"], seen_enum[r["enum"]], c.name))
        else:
            seen_enum[r["enum"]] = c.name
            R.ok(key + "::enum", where, "enum 0x%X unique" % r["enum"] if isinstance(r["enum"], int) else "enum %r" % (r["enum"],))
        size = prog.class_const(c, "size")
        nptype = np_dtype_of(r["nptype"]) if r["nptype"] else None
        if nptype is not None:
            if r["set_np"]:
                if nptype in seen_np:
                    R.violation(key + "::numpy_data_types", where, "dtype %s maps to two TDMS types (%s, %s): the writer's choice "
                                "becomes registration-order dependent" % (nptype, seen_np[nptype], c.name))
                else:
                    seen_np[nptype] = c.name
                    R.ok(key + "::numpy_data_types", where, "%s <-> %s" % (nptype, c.name))
            R.check(isinstance(size, int) and size == nptype.itemsize, key + "::size=itemsize", where,
                    "size %r == itemsize(%s)" % (size, nptype),
                    "size %r but dtype %s has itemsize %d: chunk arithmetic and array decoding disagree" % (size, nptype, nptype.itemsize))
        if prog.is_subclass(c, struct_base):
            decl = prog.class_const(c, "struct_declaration")
            if isinstance(decl, str) and nptype is not None and decl in STRUCT_KIND:
                kind = STRUCT_KIND[decl]
                want = np.dtype(kind)
                same = (want == nptype) or (c.name == "Boolean" and decl == "b" and nptype == np.dtype(bool))
                R.check(same, key + "::struct code/dtype", where, "struct code %r matches dtype %s" % (decl, nptype),
                        "struct code %r (%s) does not match dtype %s: property reads and array reads of this type decode differently" % (decl, want, nptype))
    ts = prog.cls("types.TimeStamp")
    R.check(prog.class_const(ts, "size") == 16, "types.TimeStamp::size", "%s:%d" % (ts.module.relpath, ts.node.lineno),
            "TimeStamp.size == 16", "TimeStamp.size must be 16 (two 64-bit fields)")
    # DAQmx scaler type codes
    dm = prog.module("daqmx")
    if "DAQMX_TYPES" not in dm.assigns or not isinstance(dm.assigns["DAQMX_TYPES"], ast.Dict):
        raise AnchorMissing("daqmx.DAQMX_TYPES dict literal")
    d = dm.assigns["DAQMX_TYPES"]
    expected = {0: "Uint8", 1: "Int8", 2: "Uint16", 3: "Int16", 4: "Uint32", 5: "Int32", 6: "Uint64", 7: "Int64",
                8: "SingleFloat", 9: "DoubleFloat", 0xFFFFFFFF: "TimeStamp"}
    for k, v in zip(d.keys, d.values):
        code = prog.try_fold(k, dm)
        c = prog.resolve_class(dm, v)
        key = "daqmx.DAQMX_TYPES[%r]" % (code,)
        where = "%s:%d" % (dm.relpath, k.lineno)
        if c is None:
            R.violation(key, where, "value `%s` is not a data type class" % unparse(v))
            continue
        size = prog.class_const(c, "size")
        fb = prog.lookup(c, "from_bytes")
        good = isinstance(size, int) and fb is not None and fb[0] == "method"
        if code in expected:
            good = good and c.name == expected[code]
        R.check(good, key, where, "%s: size %r, from_bytes resolves" % (c.name, size),
                "DAQmx type code %r maps to %s (expected %s; size=%r, from_bytes=%s)" % (
                    code, c.name, expected.get(code, "?"), size, "yes" if fb else "missing"))


def canonical_derivation(v, prog=None, mod=None):
    """-> (mask, flag name, value if set, value if clear) for a byte-order selection in normal form:
         ('>' if MASK & toc_properties[flag] else '<'),  the same with != 0 / bool(...),  or a two-entry table indexed by that test"""
    from .sem import match, W, find
    if not (isinstance(v, tuple) and v):
        return None
    t = a = b = None
    if v[0] == "phi":
        t, a, b = v[1], v[2], v[3]
    elif v[0] == "sub":
        table = v[1]
        if prog is not None and mod is not None:
            table = _global_value(prog, mod, table)
        if table[0] == "dict" and len(table[1]) == 2:
            d = {k: val for k, val in table[1]}
            if ("const", True) in d and ("const", False) in d:
                t, a, b = v[2], d[("const", True)], d[("const", False)]
            elif ("const", 1) in d and ("const", 0) in d:
                t, a, b = v[2], d[("const", 1)], d[("const", 0)]
    if t is None:
        return None
    for _ in range(3):
        if isinstance(t, tuple) and t and t[0] == "cmp" and t[1] == "!=" and t[3] == ("const", 0):
            t = t[2]
        if isinstance(t, tuple) and t and t[0] == "call" and t[1] == "bool" and t[2]:
            t = t[2][0]
    if not (isinstance(t, tuple) and t and t[0] == "binop" and t[1] == "&" and len(t[2]) == 2):
        return None
    flag = [x for x in t[2] if match(("sub", W(), ("const", W("f"))), x) is not None and find(x, ("global", "toc_properties"))]
    if not flag and prog is not None:
        # the flag through a named constant:  _BIG_ENDIAN_FLAG = toc_properties['kTocBigEndian']  folds to the flag's value
        try:
            table = prog.try_fold(prog.module("common").assigns.get("toc_properties"), prog.module("common"), default=None)
        except Exception:
            table = None
        if isinstance(table, dict):
            for x in t[2]:
                names = [k for k, val in table.items() if x == ("const", val)]
                if len(names) == 1 and a[0] == "const" and b[0] == "const":
                    mask = [y for y in t[2] if y is not x][0]
                    return mask, names[0], a[1], b[1]
    if not flag or a[0] != "const" or b[0] != "const":
        return None
    mask = [x for x in t[2] if x is not flag[0]][0]
    return mask, flag[0][2][1], a[1], b[1]


def own_mask_canon(ctx, fi, mask, depth=0):
    """is this canonical value the ToC mask of the segment being parsed: self.toc_mask, something unpacked from the lead-in bytes
    just read, or a parameter to which every caller passes such a value"""
    from .sym import Sym
    from .sem import calls_to, call_arg
    prog = ctx.prog
    if mask == ("self", "toc_mask"):
        return True
    m = mask
    while m[0] in ("item", "sub"):
        m = m[1]
    if m[0] == "call" and "unpack" in str(m[1]).split(".")[-1]:
        return True
    if m[0] == "param" and depth < 2:
        callers = []
        for g in prog.functions.values():
            for c in calls_to(prog, g, fi.qual, g.cls):
                sy = Sym(prog, g, g.cls)
                env, _g = sy.env_at(c)
                a = call_arg(prog, c, fi, m[1], sy, env)
                callers.append(a is not None and own_mask_canon(ctx, g, a, depth + 1))
        return bool(callers) and all(callers)
    return False


def _guarded_by_byte_order(prog, flow, fi, node, prefix):
    """the node runs only when an endianness-like parameter equals `prefix` (guards evaluated for both byte orders)"""
    from .sym import Sym, eval_cond
    sy = Sym(prog, fi, fi.cls, inline=False)
    _env, guards = sy.env_at(node)
    likes = [("param", p) for p in fi.params if (fi.qual, p) in flow.like]
    if not likes or not guards:
        return False

    def runs(order):
        def orc(c):
            if isinstance(c, tuple) and len(c) == 4 and c[0] == "cmp" and c[1] == "==":
                for a, b in ((c[2], c[3]), (c[3], c[2])):
                    if a in likes and b in (("const", "<"), ("const", ">")):
                        return b[1] == order
            return None
        vals = [eval_cond(g, orc) for g in guards]
        return not any(v is False for v in vals)
    other = ">" if prefix == "<" else "<"
    return runs(prefix) and not runs(other)


def _is_toc_mask_unpack(ctx, fi, call):
    """the value unpacked here is used as a ToC mask: one of the names it is assigned to is and-ed with an entry of toc_properties, in
    this function or in a package function it is handed to"""
    prog = ctx.prog
    names = _assigned_names(fi, call)
    if not names:
        return False
    try:
        table = prog.try_fold(prog.module("common").assigns.get("toc_properties"), prog.module("common"), default=None)
    except Exception:
        table = None
    flagvals = set(table.values()) if isinstance(table, dict) else set()

    def is_flag(e, f):
        if isinstance(e, ast.Subscript) and (dotted(e.value) or "").split(".")[-1] == "toc_properties":
            return True
        v = prog.try_fold(e, f.module, default=None)
        return isinstance(v, int) and not isinstance(v, bool) and v in flagvals

    def anded(f, nms):
        for b in walk_body(f.node):
            if isinstance(b, ast.BinOp) and isinstance(b.op, ast.BitAnd):
                for x, y in ((b.left, b.right), (b.right, b.left)):
                    if isinstance(x, ast.Name) and x.id in nms and is_flag(y, f):
                        return True
        return False
    if anded(fi, names):
        return True
    from .region import call_targets
    for c in walk_body(fi.node):
        if isinstance(c, ast.Call) and c is not call:
            for q in call_targets(ctx, fi, c):
                g = prog.functions.get(q)
                if g is None:
                    continue
                ps = [p for p in g.params if not (g.cls is not None and not g.is_static and p in ("self", "cls"))]
                passed = {p for p, a in list(zip(ps, c.args)) + [(k.arg, k.value) for k in c.keywords if k.arg] if isinstance(a, ast.Name) and a.id in names}
                if passed and anded(g, passed):
                    return True
    return False


@rule("BL3", "byte order is threaded through every read-side parse site", floor=40)
def bl3(ctx, R):
    prog = ctx.prog
    flow = _endian_flow(ctx)
    cg = ctx.callgraph()
    # (a) unpack formats
    n = 0
    for fi, call in _unpack_sites(prog):
        pre, body = _format_parts(call.args[0], fi)
        key = "%s::unpack(%s)" % (fi.qual, unparse(call.args[0]))
        where = fi.where(call)
        n += 1
        if pre is None:
            # constant format
            lit = body if isinstance(body, str) else None
            parent_targets = _assigned_names(fi, call)
            if lit and lit.startswith("<") and _is_toc_mask_unpack(ctx, fi, call):
                R.ok(key, where, "reviewed exception: the ToC mask carries the byte-order flag and is little-endian by specification")
            elif lit is not None and all(ch in "bBx?cs0123456789<>=!@" for ch in lit):
                R.ok(key, where, "single-byte fields only")
            elif lit is not None and lit[:1] in ("<", ">") and _guarded_by_byte_order(prog, flow, fi, call, lit[0]):
                R.ok(key, where, "constant %r format selected by a test of the byte order" % lit[0])
            elif lit is not None and lit.startswith("<") and len(call.args) > 1 and isinstance(call.args[1], ast.Attribute) and call.args[1].attr == "bytes":
                # the buffer is the serialised form of a value of this library (<x>.bytes), which is little-endian by construction
                # (writer side, (f)): not bytes of a file segment
                R.ok(key, where, "decodes the library's own little-endian serialisation (`%s`), not file bytes" % unparse(call.args[1]))
            else:
                R.violation(key, where, "fixed byte order: format %r does not depend on the segment's endianness" % (lit or unparse(call.args[0])))
            continue
        if prog.try_fold(pre, fi.module, default=None) == "<" and _is_toc_mask_unpack(ctx, fi, call):
            R.ok(key, where, "reviewed exception: the ToC mask carries the byte-order flag and is little-endian by specification")
            continue
        ok, why = flow.derived(fi, pre)
        R.check(ok, key, where, why, "format prefix `%s` is not the segment's byte order: %s" % (unparse(pre), why))
    # (b) default-argument trap + all endianness-like parameters at every call site
    seen_calls = set()
    for fi in _funcs_in(prog, list(prog.modules)):
        for e in cg.callees(fi.qual):
            if not isinstance(e.node, ast.Call) or e.kind in ("prop", "prop-byname"):
                continue
            callee = prog.functions[e.callee]
            likes = [p for p in callee.params if (callee.qual, p) in flow.like]
            if not likes:
                continue
            if e.kind in ("byname", "byname-unique"):
                # a by-name edge is only believed when the receiver is a data type object
                # (x.data_type, prop_data_type, cls ...); `stream.read(4)` is not a call of TdmsType.read
                recv = dotted(e.node.func.value) if isinstance(e.node.func, ast.Attribute) else None
                leaf = (recv or "").split(".")[-1].lower()
                if not ("type" in leaf or leaf == "cls"):
                    continue
            if (id(e.node), callee.qual) in seen_calls:
                continue
            seen_calls.add((id(e.node), callee.qual))
            if callee.module.name not in READ_SIDE and fi.module.name not in READ_SIDE:
                continue
            if any(isinstance(x, ast.Attribute) and x.value is e.node and x.attr in ("pack", "pack_into") for x in ast.walk(fi.node)):
                # a prepared struct that is only used to PACK: an encoder (the library's own little-endian serialisation, decided by
                # BL4 and the writer rules), not a parse site
                continue
            bound = dict(flow._bind(callee, e.node, e.kind))
            for p in likes:
                key = "%s::%s(%s=)" % (fi.qual, unparse(e.node.func), p)
                where = fi.where(e.node)
                if p not in bound:
                    if p in callee.defaults:
                        R.violation(key + "->" + callee.qual, where, "call relies on the default %s=%s of %s: the segment's byte order is "
                                    "not passed (big-endian segments would be parsed as little-endian here)" % (
                                        p, unparse(callee.defaults[p]), callee.qual))
                    else:
                        R.undecided(key + "->" + callee.qual, where, "argument for %s not found" % p)
                    continue
                ok, why = flow.derived(fi, bound[p])
                R.check(ok, key + "->" + callee.qual, where, why,
                        "argument `%s` for %s of %s: %s" % (unparse(bound[p]), p, callee.qual, why))
    # (c) raw decode sinks use a byte-order-qualified dtype
    for fi in _funcs_in(prog, ("types", "tdms_segment", "daqmx")):
        for nnode in walk_body(fi.node):
            sink = None
            dt = None
            if isinstance(nnode, ast.Call):
                cn = call_name(nnode) or ""
                leaf = cn.split(".")[-1]
                if leaf in ("fromfile", "frombuffer", "fromstring"):
                    sink = leaf
                    for k in nnode.keywords:
                        if k.arg == "dtype":
                            dt = k.value
                    if dt is None and len(nnode.args) >= 2:
                        dt = nnode.args[1]
                elif leaf == "view" and isinstance(nnode.func, ast.Attribute) and nnode.args:
                    a0 = nnode.args[0]
                    if not (isinstance(a0, ast.Name) and a0.id in ("cls",)) and dotted(a0) not in ("np.ndarray",):
                        sink, dt = "view", a0
            elif isinstance(nnode, ast.Assign) and len(nnode.targets) == 1 and isinstance(nnode.targets[0], ast.Attribute) \
                    and nnode.targets[0].attr == "dtype":
                sink, dt = "dtype=", nnode.value
            if sink is None or dt is None:
                continue
            key = "%s::%s(%s)" % (fi.qual, sink, unparse(dt))
            where = fi.where(nnode)
            verdict, why = _dtype_byte_order(prog, flow, fi, dt)
            if verdict == "ok":
                R.ok(key, where, why)
            elif verdict == "violation":
                R.violation(key, where, why)
            else:
                R.undecided(key, where, why)
    # (d) per-segment derivations use the segment's own mask with the right polarity.  Derivations are recognised in normal form
    #     ('>' / '<' selected by MASK & toc_properties[flag]), whether written as a conditional expression, an if statement or a helper.
    from .sym import Sym, show, alpha
    from .sem import match, W, find

    derivs = 0
    deriving = set()
    for fi in _funcs_in(prog, READ_SIDE):
        if fi.module.name == "common":
            continue
        sy = None
        seen_forms = set()
        for nnode in walk_body(fi.node):
            vals = []
            if isinstance(nnode, ast.Assign) or (isinstance(nnode, ast.Return) and nnode.value is not None):
                vals = [nnode.value]
            elif isinstance(nnode, ast.Call):
                vals = [a for a in list(nnode.args) + [k.value for k in nnode.keywords]
                        if any(isinstance(x, (ast.IfExp, ast.Call, ast.Name)) for x in ast.walk(a)) and not isinstance(a, (ast.Lambda, ast.GeneratorExp, ast.ListComp))]
            for e in vals:
                sy = sy or Sym(prog, fi, fi.cls)
                env, _g = sy.env_at(nnode)
                top = sy.expr(e, env)
                from .sym import collect as _collect
                cands = _collect(top, lambda x: canonical_derivation(x, prog, fi.module) is not None)
                for v in cands[:1]:
                  cd = canonical_derivation(v, prog, fi.module)
                  if cd is None:
                    continue
                  form = alpha(v)
                  if form in seen_forms:
                    continue
                  seen_forms.add(form)
                  derivs += 1
                  deriving.add(fi.qual)
                  mask, flag, a, b = cd
                  key = "%s::byte-order derivation" % fi.qual
                  where = fi.where(nnode)
                  if not (flag == "kTocBigEndian" and a == ">" and b == "<"):
                    R.violation(key, where, "`%s`: wrong ToC flag or swapped '>'/'<'" % show(alpha(v))[:120])
                  elif not own_mask_canon(ctx, fi, mask):
                    R.violation(key, where, "byte order derived from `%s`, which is not this segment's own ToC mask" % show(alpha(mask))[:100])
                  else:
                    R.ok(key, where, "'>' iff own toc_mask & kTocBigEndian")
    if derivs < 2:
        raise AnchorMissing("byte-order derivations from the ToC mask (found %d, expected >= 2)" % derivs)
    # the lead-in parse and the metadata parse each derive the byte order themselves
    for q in ("reader.TdmsReader._read_lead_in", "tdms_segment.TdmsSegment.read_segment_objects"):
        if q not in deriving and not (set(ctx.callgraph().reachable([prog.func(q).qual])) & deriving):
            raise AnchorMissing("%s: byte-order derivation from the ToC mask" % q)
    # data reader constructors receive a derived endianness (third constructor parameter)
    gdr = prog.func("tdms_segment.TdmsSegment._get_data_reader")
    base = prog.cls("base_segment.BaseDataReader")
    # the readers are constructed in that method, or in a private method it delegates to (e.g. behind a memo)
    from .region import region as _region_
    for g_ in _region_(ctx, gdr, depth=2):
        if g_.cls is gdr.cls and sum(1 for c_ in walk_body(g_.node) if isinstance(c_, ast.Call) and isinstance(c_.func, (ast.Name, ast.Attribute))
                                     and prog.resolve_class(g_.module, c_.func) is not None and prog.is_subclass(prog.resolve_class(g_.module, c_.func), base)) >= 3:
            gdr = g_
            break
    ctor_sites = []       # (call, class)
    for c in walk_body(gdr.node):
        if not isinstance(c, ast.Call):
            continue
        k = prog.resolve_class(gdr.module, c.func) if isinstance(c.func, (ast.Name, ast.Attribute)) else None
        if k is not None and prog.is_subclass(k, base):
            ctor_sites.append((c, k))
        elif isinstance(c.func, ast.Name):
            # reader_class = ClassA / ClassB / ...;  reader_class(...)
            ks = []
            for n in walk_body(gdr.node):
                if isinstance(n, ast.Assign) and any(isinstance(t, ast.Name) and t.id == c.func.id for t in n.targets):
                    for v_ in ([n.value.body, n.value.orelse] if isinstance(n.value, ast.IfExp) else [n.value]):
                        kk = prog.resolve_class(gdr.module, v_) if isinstance(v_, (ast.Name, ast.Attribute)) else None
                        ks.append(kk)
                    if isinstance(n.value, ast.Call):
                        # reader_class = self._pick_reader_class()
                        from .flow import resolve_call as _rc
                        for g, _k in _rc(prog, gdr, gdr.cls, n.value):
                            for r_ in walk_body(g.node):
                                if isinstance(r_, ast.Return) and r_.value is not None:
                                    for v_ in ([r_.value.body, r_.value.orelse] if isinstance(r_.value, ast.IfExp) else [r_.value]):
                                        kk = prog.resolve_class(g.module, v_) if isinstance(v_, (ast.Name, ast.Attribute)) else None
                                        if kk is not None:
                                            ks.append(kk)
                                        elif isinstance(v_, ast.Name):
                                            for n2 in walk_body(g.node):
                                                if isinstance(n2, ast.Assign) and any(isinstance(t, ast.Name) and t.id == v_.id for t in n2.targets):
                                                    k2 = prog.resolve_class(g.module, n2.value) if isinstance(n2.value, (ast.Name, ast.Attribute)) else None
                                                    if k2 is not None:
                                                        ks.append(k2)
                        ks = [x for x in ks if x is not None]
            if ks and all(kk is not None and prog.is_subclass(kk, base) for kk in ks):
                ctor_sites += [(c, kk) for kk in ks]
    ctor_calls = [c for c, _k in ctor_sites]
    if len(ctor_sites) < 3:
        raise AnchorMissing("tdms_segment.TdmsSegment._get_data_reader: three data reader constructions")
    binit = prog.func("base_segment.BaseDataReader.__init__")
    like_params = [p for p in binit.params if (binit.qual, p) in flow.like]
    if not like_params:
        raise AnchorMissing("base_segment.BaseDataReader.__init__: endianness parameter")
    for c, cls_ in ctor_sites:
        init = prog.lookup(cls_, "__init__")[2]
        bound = dict(flow._bind(init, c, "ctor"))
        for p in [p for p in init.params if (init.qual, p) in flow.like]:
            key = "%s::%s(%s=)" % (gdr.qual, cls_.name, p)
            if p not in bound:
                R.violation(key, gdr.where(c), "data reader constructed without the segment's byte order")
                continue
            ok, why = flow.derived(gdr, bound[p])
            R.check(ok, key, gdr.where(c), why, "data reader receives `%s`: %s" % (unparse(bound[p]), why))
    # (e) no endianness is cached on long-lived objects
    for (sfi, target, value) in flow.attr_stores:
        key = "%s::store .%s" % (sfi.qual, target.attr)
        ok_store = sfi.name == "__init__" and dotted(target.value) == "self" and isinstance(value, ast.Name) \
            and (sfi.qual, value.id) in flow.like and prog.is_subclass(sfi.cls, prog.cls("base_segment.BaseDataReader"))
        if ok_store:
            R.ok(key, sfi.where(target), "per-segment data reader keeps the endianness it was constructed with")
        else:
            ok2, why2 = flow.derived(sfi, value)
            own = ok2 and dotted(target.value) == "self" and "own ToC mask" in why2
            R.check(own, key, sfi.where(target), "stored from the object's own ToC mask",
                    "byte order stored on an object from `%s` (%s): segments of different byte order in one file would be "
                    "decoded with a stale byte order" % (unparse(value), why2))
    # (e2) nor a value whose representation depends on it (a dtype with the byte order applied, a format string): segment objects
    #      are shared between segments (`same as previous` index, copy()), data reader objects are made per segment read
    def order_dependent(e, fi):
        is_like = lambda x: isinstance(x, ast.Name) and (fi.qual, x.id) in flow.like
        if is_like(e):
            return True
        if isinstance(e, ast.Call):
            if isinstance(e.func, ast.Attribute) and e.func.attr == "newbyteorder":
                return any(is_like(a) or order_dependent(a, fi) for a in e.args)
            if call_name(e) in ("np.dtype", "numpy.dtype"):
                return any(order_dependent(a, fi) for a in e.args)
            return False          # what other calls return is decoded data, not a representation
        if isinstance(e, ast.BinOp) and isinstance(e.op, (ast.Add, ast.Mod)):
            return order_dependent(e.left, fi) or order_dependent(e.right, fi)
        if isinstance(e, (ast.Attribute, ast.Subscript)):
            return order_dependent(e.value, fi)
        if isinstance(e, ast.IfExp):
            return order_dependent(e.body, fi) or order_dependent(e.orelse, fi)
        return False
    n_e2 = 0
    for fi in _funcs_in(prog, ("tdms_segment", "daqmx", "base_segment", "reader", "types")):
        per_read = fi.cls is not None and prog.is_subclass(fi.cls, prog.cls("base_segment.BaseDataReader")) and fi.name == "__init__"
        for n in walk_body(fi.node):
            if isinstance(n, ast.Assign):
                for t in n.targets:
                    if isinstance(t, ast.Attribute) and dotted(t.value) == "self" and not per_read and t.attr not in flow.like_attrs \
                            and order_dependent(n.value, fi):
                        n_e2 += 1
                        R.violation("%s::store .%s" % (fi.qual, t.attr), fi.where(n), "`%s` keeps a value whose representation depends on the byte order of the "
                                    "segment being parsed on an object that outlives it (segment objects are shared between segments through `same as "
                                    "previous` raw data indexes): a later segment with the other byte order is decoded with the stale one" % unparse(n)[:90])
    R.ok("reader::no byte-order dependent representation is kept on shared objects", "nptdms", "no dtype / format with a byte order applied is stored on an object")
    # (f) writer side is little-endian only
    wmods = ("writer", "types", "timestamp")
    for fi in _funcs_in(prog, wmods):
        for nnode in walk_body(fi.node):
            if isinstance(nnode, ast.Call) and call_name(nnode) in PACK_NAMES and nnode.args:
                pre, body = _format_parts(nnode.args[0], fi)
                key = "%s::pack(%s)" % (fi.qual, unparse(nnode.args[0]))
                lit = body if pre is None and isinstance(body, str) else None
                pre_lit = pre.value if isinstance(pre, ast.Constant) else None
                good = (lit is not None and lit.startswith("<")) or pre_lit == "<"
                if not good and lit is not None:
                    # a big-endian pack that is selected by a byte-order parameter for which the package only ever passes '<'
                    from .sym import Sym as _Sym2
                    from .sem import calls_to as _ct2, call_arg as _ca2
                    _e, guards_ = _Sym2(prog, fi, fi.cls, inline=False).env_at(nnode)
                    sel = [g_[2][1] for g_ in guards_ if isinstance(g_, tuple) and len(g_) == 4 and g_[0] == "cmp" and g_[1] == "==" and g_[2][0] == "param"
                           and g_[3] == ("const", lit[0])]
                    if sel:
                        vals = []
                        wreach = cg.reachable([q_ for q_, f_ in prog.functions.items() if f_.module.name == "writer"])
                        for g in prog.functions.values():
                            if g.qual not in wreach:
                                continue        # a caller the writer never reaches (a public helper of its own) is not the writer packing
                            for cc in _ct2(prog, g, fi.qual, g.cls):
                                sg = _Sym2(prog, g, g.cls, inline=False)
                                e2, _gg = sg.env_at(cc)
                                vals.append(_ca2(prog, cc, fi, sel[0], sg, e2))
                        dflt = prog.try_fold(fi.defaults.get(sel[0]), fi.module, default=None) if sel[0] in fi.defaults else None
                        if (vals or dflt == "<") and all(v_ == ("const", "<") or (v_ is None and dflt == "<") for v_ in vals):
                            R.ok(key, fi.where(nnode), "selected by `%s == %r`, and every call site in the package passes '<'" % (sel[0], lit[0]))
                            continue
                if not good and isinstance(pre, ast.Name) and pre.id in fi.params:
                    # the prefix is a parameter: what the writer's side passes for it decides (a public helper that can also pack the
                    # other order is not the writer packing it)
                    from .sem import calls_to as _ct, call_arg as _ca
                    from .sym import Sym as _Sym
                    vals = []
                    for g in prog.functions.values():
                        if g.module.name.startswith("test"):
                            continue
                        for cc in _ct(prog, g, fi.qual, g.cls):
                            sg = _Sym(prog, g, g.cls, inline=False)
                            e2, _gg = sg.env_at(cc)
                            vals.append(_ca(prog, cc, fi, pre.id, sg, e2))
                    dflt = prog.try_fold(fi.defaults.get(pre.id), fi.module, default=None) if pre.id in fi.defaults else None
                    if vals and all(v_ == ("const", "<") or (v_ is None and dflt == "<") for v_ in vals):
                        R.ok(key, fi.where(nnode), "every call site in the package passes '<' for `%s`" % pre.id)
                        continue
                    if not vals and dflt == "<":
                        R.ok(key, fi.where(nnode), "`%s` defaults to '<' and nothing in the package passes another value" % pre.id)
                        continue
                    if not vals or any(v_ is not None and v_[0] != "const" for v_ in vals):
                        R.unrecognised(key, fi.where(nnode), "the byte order prefix is the parameter `%s`; what the writer passes for it was not decided" % pre.id)
                        continue
                R.check(good, key, fi.where(nnode), "packs little-endian", "pack format is not explicitly little-endian while the writer never sets kTocBigEndian")
    wm = prog.module("writer")
    for nnode in ast.walk(wm.tree):
        if isinstance(nnode, ast.Constant) and nnode.value == "kTocBigEndian":
            R.violation("writer::kTocBigEndian", "%s:%d" % (wm.relpath, nnode.lineno), "writer sets kTocBigEndian but serialises little-endian")


def _assigned_names(fi, call):
    for n in walk_body(fi.node):
        if isinstance(n, ast.Assign) and any(x is call for x in ast.walk(n.value)):
            out = set()
            for t in n.targets:
                for e in ast.walk(t):
                    if isinstance(e, ast.Name):
                        out.add(e.id)
            return out
    return set()


def _single_byte_dtype(prog, fi, expr):
    import numpy as np
    txt = None
    if isinstance(expr, ast.Constant) and isinstance(expr.value, str):
        txt = expr.value
    elif isinstance(expr, ast.Call) and call_name(expr) in ("np.dtype", "numpy.dtype") and expr.args \
            and isinstance(expr.args[0], ast.Constant) and isinstance(expr.args[0].value, str):
        txt = expr.args[0].value
    elif dotted(expr) and dotted(expr).startswith("np."):
        txt = dotted(expr)[3:]
    if txt is None:
        return None
    try:
        dt = np.dtype(getattr(np, txt)) if hasattr(np, txt) and not txt[0] in "<>=|" else np.dtype(txt)
    except Exception:
        return None
    return dt.itemsize == 1


def _dtype_byte_order(prog, flow, fi, dt, depth=0):
    """Classify a dtype expression used to reinterpret bytes read from the file."""
    sb = _single_byte_dtype(prog, fi, dt)
    if sb is True:
        return "ok", "single-byte dtype"
    if sb is False:
        return "violation", "multi-byte dtype `%s` with a fixed byte order reinterprets file bytes: big-endian segments decode wrongly" % unparse(dt)
    if isinstance(dt, ast.Call) and isinstance(dt.func, ast.Attribute) and dt.func.attr == "newbyteorder":
        if not dt.args:
            return "violation", "newbyteorder() without the segment's byte order"
        ok, why = flow.derived(fi, dt.args[0])
        return ("ok", "newbyteorder(%s): %s" % (unparse(dt.args[0]), why)) if ok else \
            ("violation", "newbyteorder argument `%s`: %s" % (unparse(dt.args[0]), why))
    if isinstance(dt, ast.Call) and isinstance(dt.func, (ast.Name, ast.Attribute)) and not (isinstance(dt.func, ast.Attribute) and dt.func.attr == "newbyteorder"):
        # a package helper that applies the byte order:  helper(nptype, endianness)  where every newbyteorder in it is
        # <its parameter>.newbyteorder(<its parameter>) and it constructs no other dtype (a memoised newbyteorder)
        from .flow import resolve_call as _rc
        tg = [g for g, _k in _rc(prog, fi, fi.cls, dt)]
        if len(tg) == 1 and tg[0].module.name in prog.modules:
            g = tg[0]
            nbo = [c for c in walk_body(g.node) if isinstance(c, ast.Call) and isinstance(c.func, ast.Attribute) and c.func.attr == "newbyteorder"]
            other = [c for c in walk_body(g.node) if isinstance(c, ast.Call) and call_name(c) in ("np.dtype", "numpy.dtype")]
            if nbo and not other and all(isinstance(c.func.value, ast.Name) and c.func.value.id in g.params and len(c.args) == 1
                                         and isinstance(c.args[0], ast.Name) and c.args[0].id in g.params for c in nbo) \
                    and len({c.args[0].id for c in nbo}) == 1:
                ps = [p_ for p_ in g.params if p_ not in ("self", "cls")]
                qn = nbo[0].args[0].id
                i = ps.index(qn)
                arg = dt.args[i] if len(dt.args) > i else next((k.value for k in dt.keywords if k.arg == qn), None)
                if arg is None:
                    return "undecided", "byte order argument of %s not found" % g.qual
                ok, why = flow.derived(fi, arg)
                return ("ok", "%s(.., %s): %s" % (g.name, unparse(arg), why)) if ok else ("violation", "byte order argument `%s` of %s: %s" % (unparse(arg), g.name, why))
    if isinstance(dt, ast.Name):
        if dt.id in fi.params:
            return "ok", "dtype is a parameter (checked at the call sites)"
        defs = _local_defs(fi.node, dt.id)
        if not defs or depth > 3:
            return "undecided", "no definition for %s" % dt.id
        # endianness-conditional literal layouts (TimeStamp.from_bytes) are checked by BL4
        verdicts = []
        for d in defs:
            if isinstance(d, tuple):
                return "undecided", "tuple-unpacked dtype"
            if isinstance(d, ast.Call) and call_name(d) in ("np.dtype", "numpy.dtype") and d.args and isinstance(d.args[0], ast.List):
                verdicts.append(("ok", "structured layout literal (byte-order characters checked by BL4)"))
                continue
            verdicts.append(_dtype_byte_order(prog, flow, fi, d, depth + 1))
        for v in verdicts:
            if v[0] != "ok":
                return v
        return verdicts[0]
    d = dotted(dt)
    if d and d.endswith(".nptype"):
        return "violation", "`%s` used without .newbyteorder(<segment byte order>): native byte order is assumed for file bytes" % d
    if isinstance(dt, ast.Attribute) or isinstance(dt, ast.Call):
        # e.g. Uint32.nptype wrapped otherwise
        for sub in ast.walk(dt):
            if isinstance(sub, ast.Attribute) and sub.attr == "nptype":
                inner = [c for c in ast.walk(dt) if isinstance(c, ast.Call) and isinstance(c.func, ast.Attribute) and c.func.attr == "newbyteorder"]
                if not inner:
                    return "violation", "`%s` builds a dtype from .nptype without .newbyteorder(<segment byte order>)" % unparse(dt)
    return "undecided", "dtype expression `%s` not understood" % unparse(dt)


# ---------------------------------------------------------------------------
# BL4: timestamp layout siblings

def _fmt_fields(fmt):
    return [ch for ch in fmt if ch in "Qq"]


def _global_value(prog, mod, v, depth=0):
    """canonical value of a module-level name"""
    from .sym import Sym
    if isinstance(v, tuple) and len(v) == 2 and v[0] in ("global", "name") and depth < 3:
        e = mod.assigns.get(v[1])
        if e is not None:
            f0 = next(iter(f for f in prog.functions.values() if f.module is mod), None)
            if f0 is not None:
                return _global_value(prog, mod, Sym(prog, f0, None, inline=False).expr(e, {}), depth + 1)
    return v


def _endian_scenarios(v, endian_param, prog=None, fi=None):
    """(value when endianness == '<', value when it is '>') of a canonical value: the parameter is replaced by the constant and the
    result partially evaluated (comparisons, lookup tables keyed by the comparison, conditionals)"""
    from .sym import simplify
    from .sem import subst, peval
    out = []
    for order in ("<", ">"):
        w = subst(v, endian_param, ("const", order))
        w = peval(prog, fi, w) if prog is not None else w
        out.append(simplify(w, lambda c: None))
    return out


def _fmt_letters(v, endian_param):
    """letters of an unpack/pack format  endianness + 'Qq'  /  '<Qq'"""
    if v[0] == "const" and isinstance(v[1], str):
        return v[1].lstrip("<>=!@")
    if v[0] == "binop" and v[1] == "+" and len(v[2]) == 2 and v[2][1][0] == "const" and isinstance(v[2][1][1], str):
        return v[2][1][1]
    return None


@rule("BL4", "the sites that know the 16-byte timestamp layout agree (field order, signedness, by-name copy)", floor=9)
def bl4(ctx, R):
    """Layout: unsigned 64-bit fractions and signed 64-bit seconds; fractions first when little-endian, seconds first when big-endian.
    Encoders, the scalar decoder and the array decoder are read in normal form (per byte order); which packed / unpacked value is the
    fractions and which the seconds is decided by where it flows (TdmsTimestamp's seconds / second_fractions parameters and fields) or,
    in the encoder from datetimes, by how it is computed (scaled by 2**64 per second vs. counted in whole seconds)."""
    from .sym import Sym, show, alpha, simplify
    from .sem import find, W, match, call_arg, calls_to
    from .region import backward_slice
    prog = ctx.prog
    TS = prog.cls("timestamp.TdmsTimestamp")
    tinit = prog.func("timestamp.TdmsTimestamp.__init__")
    # 0: the field ORDER differs between the byte orders, so a record dtype with both fields written in one fixed order cannot be turned
    #    into the other layout by .newbyteorder(<the segment's byte order>)
    def record_fields(e, mod):
        """field names of a dtype spec [('a', ..), ('b', ..)] given directly, through np.dtype(...), or through a module-level name"""
        if isinstance(e, ast.Call) and call_name(e) in ("np.dtype", "numpy.dtype") and e.args:
            return record_fields(e.args[0], mod)
        if isinstance(e, ast.Name) and e.id in mod.assigns:
            return record_fields(mod.assigns[e.id], mod)
        if isinstance(e, (ast.List, ast.Tuple)) and e.elts and all(isinstance(x, ast.Tuple) and x.elts and isinstance(x.elts[0], ast.Constant) for x in e.elts):
            return [x.elts[0].value for x in e.elts]
        return None
    n0 = 0
    for f_ in sorted(prog.functions.values(), key=lambda f: f.qual):
        if f_.module.name in ("writer",):
            continue
        for c_ in walk_body(f_.node):
            if isinstance(c_, ast.Call) and isinstance(c_.func, ast.Attribute) and c_.func.attr == "newbyteorder" and c_.args:
                flds = record_fields(c_.func.value, f_.module)
                if flds and {"seconds", "second_fractions"} <= set(flds):
                    n0 += 1
                    arg = c_.args[0]
                    fixed = isinstance(arg, ast.Constant)
                    R.check(fixed, "%s::timestamp record byte order" % f_.qual, f_.where(c_), "constant byte order on a record dtype",
                            "`%s`: the timestamp record (%s) is given the segment's byte order with newbyteorder, but big-endian timestamps also store the "
                            "two fields in the opposite order (seconds first): both fields are read from the wrong half of the record" % (
                                unparse(c_)[:70], ", ".join(flds)))
    # 1/2: encoders pack '<Qq' (fractions, seconds)
    for q, role in (("types.TimeStamp.__init__", "encoder"), ("timestamp.TdmsTimestamp.bytes", "raw encoder")):
        fi = prog.func(q)
        sy = Sym(prog, fi, fi.cls)
        packs = []
        for c in walk_body(fi.node):
            if isinstance(c, ast.Call):
                env, _g = sy.env_at(c)
                v = sy.expr(c, env)
                fmt = args = None
                if v[0] == "call" and str(v[1]).endswith("pack") and not str(v[1]).endswith("unpack") and v[2] and v[2][0][0] == "const":
                    fmt, args = v[2][0][1], c.args[1:]
                elif v[0] == "method" and v[1] == "pack":
                    st = _global_value(prog, fi.module, v[2])
                    if st[0] == "call" and str(st[1]).endswith("Struct") and st[2] and st[2][0][0] == "const":
                        fmt, args = st[2][0][1], c.args
                elif v[0] == "call" and isinstance(v[1], str):
                    # alias of a bound pack method:  _pack = struct.Struct('<Qq').pack
                    al = _global_value(prog, fi.module, ("global", v[1].split(".")[-1]))
                    if al[0] == "attr" and al[2] == "pack" and al[1][0] == "call" and str(al[1][1]).endswith("Struct") and al[1][2] and al[1][2][0][0] == "const":
                        fmt, args = al[1][2][0][1], c.args
                if fmt is not None:
                    packs.append((c, fmt, args, env))
        if len(packs) != 1:
            R.unrecognised("%s::layout" % q, fi.where(), "%d struct pack calls with a constant format in the function itself (the packing may live in a helper "
                           "it delegates to): which value goes into which field was not recognised" % len(packs))
            continue
        c, fmt, args, env = packs[0]

        def role_of(a):
            v = sy.expr(a, env)
            if v == ("self", "second_fractions"):
                return "fractions"
            if v == ("self", "seconds"):
                return "seconds"
            # in normal form (helpers inlined, record fields projected): a product with a 2**64-per-second constant is the fraction count
            from .sym import collect as _coll

            def is_scale_const(t):
                val = t[1] if t[0] == "const" else (prog.class_const(fi.cls, t[1]) if t[0] == "self" and fi.cls is not None else None)
                return isinstance(val, (int, float)) and not isinstance(val, bool) and any(
                    abs(val - (2.0 ** 64) * 10.0 ** -k) <= 1e-6 * (2.0 ** 64) * 10.0 ** -k for k in (0, 3, 6, 9, 12))
            if v[0] not in ("opaque", "loop", "mutated", "name", "attr"):
                prods = _coll(v, lambda t: isinstance(t, tuple) and len(t) == 3 and t[0] == "binop" and t[1] == "*")
                if any(is_scale_const(x) for pr in prods for x in pr[2] if isinstance(x, tuple) and x):
                    return "fractions"
                if prods == [] and _coll(v, lambda t: isinstance(t, tuple) and len(t) == 4 and t[0] == "call" and str(t[1]).endswith("timedelta64")
                                         and len(t[2]) == 2 and t[2][1] == ("const", "s")):
                    return "seconds"
            # how it is computed: scaled by a 2**64-per-second constant -> fractions; a count of whole seconds -> seconds
            scaled = False
            secs = False
            for frames, e in backward_slice(ctx, fi, a):
                g = frames[-1][0]
                for x in ast.walk(e):
                    if isinstance(x, ast.BinOp) and isinstance(x.op, ast.Mult):
                        for side in (x.left, x.right):
                            val = prog.try_fold(side, g.module, default=None)
                            if val is None and isinstance(side, ast.Attribute) and g.cls is not None:
                                val = prog.class_const(g.cls, side.attr)
                            if isinstance(val, (int, float)) and any(abs(val - (2.0 ** 64) * 10.0 ** -k) <= 1e-6 * (2.0 ** 64) * 10.0 ** -k for k in (0, 3, 6, 9, 12)):
                                scaled = True
                    if isinstance(x, ast.Call) and (call_name(x) or "").endswith("timedelta64") and len(x.args) == 2 and prog.try_fold(x.args[1], g.module, default=None) == "s":
                        secs = True
            if scaled:
                return "fractions"
            if secs:
                return "seconds"
            return None
        roles = [role_of(a) for a in args]
        if None in roles:
            R.undecided(q + "::pack", fi.where(c), "roles of the packed values not determined (%s)" % roles)
        else:
            R.check(fmt == "<Qq" and roles == ["fractions", "seconds"], q + "::pack", fi.where(c), "'<Qq' (second_fractions, seconds)",
                    "timestamp %s packs %r with (%s); the layout is unsigned 64-bit fractions first, then signed 64-bit seconds" % (role, fmt, ", ".join(roles)))
    # 3: TimeStamp.read per byte order: the signed value goes to seconds, the unsigned one to second_fractions; 'Qq' little, 'qQ' big
    fi = prog.func("types.TimeStamp.read")
    EP = ("param", [p for p in fi.params if "endian" in p][0]) if any("endian" in p for p in fi.params) else None
    if EP is None:
        raise AnchorMissing("types.TimeStamp.read: byte order parameter")
    v = Sym(prog, fi, fi.cls).function_value()
    sc = _endian_scenarios(v, EP, prog, fi)
    if sc[0] == sc[1]:
        raise AnchorMissing("types.TimeStamp.read: branch on the byte order")
    ps = [p for p in tinit.params if p != "self"]
    for which, val, want_fmt in (("<", sc[0], "Qq"), (">", sc[1], "qQ")):
        key = "types.TimeStamp.read::%s branch" % which
        m = match(("new", TS.qual, W("args"), W("kws")), val)
        if m is None:
            R.undecided(key, fi.where(), "result `%s` not understood" % show(alpha(val))[:120])
            continue
        bound = dict(zip(ps, m["args"]))
        bound.update(dict(m["kws"]))
        ok = True
        detail = []
        for pname, letter in (("seconds", "q"), ("second_fractions", "Q")):
            a = bound.get(pname)
            mm = match(("item", ("call", W("fn"), (W("fmt"), W("buf")), W()), W("i")), a) if a is not None else None
            if mm is None:
                mm2 = match(("sub", ("call", W("fn"), (W("fmt"), W("buf")), W()), ("const", W("i"))), a) if a is not None else None
                mm = mm2
            letters = _fmt_letters(mm["fmt"], EP) if mm else None
            if mm is None or letters is None or not isinstance(mm["i"], int) or mm["i"] >= len(letters):
                ok = None
                break
            detail.append("%s <- field %d of %r" % (pname, mm["i"], letters))
            if letters[mm["i"]] != letter or letters != want_fmt:
                ok = False
        if ok is None:
            R.undecided(key, fi.where(), "arguments of TdmsTimestamp not understood: %s" % show(alpha(val))[:120])
        else:
            R.check(ok, key, fi.where(), "%s-endian: %s" % (which, "; ".join(detail)),
                    "%s-endian branch: %s (format must be %r; the unsigned field is the fractions and the signed one the seconds)" % (which, "; ".join(detail), want_fmt))
    # 4: TimeStamp.from_bytes: structured dtype per byte order
    fi = prog.func("types.TimeStamp.from_bytes")
    EP2 = ("param", [p for p in fi.params if "endian" in p][0])
    v = Sym(prog, fi, fi.cls).function_value()
    sc = _endian_scenarios(v, EP2, prog, fi)
    if sc[0] == sc[1]:
        raise AnchorMissing("types.TimeStamp.from_bytes: branch on the byte order")
    for which, val in (("<", sc[0]), (">", sc[1])):
        key = "types.TimeStamp.from_bytes::%s branch" % which
        views = find(val, ("method", "view", W(), (W("dt"),), W()))
        fields = None
        for x, b in views:
            dt = _global_value(prog, fi.module, b["dt"])
            mm = match(("call", W("fn"), (("list", W("items")),), W()), dt)
            if mm is not None and str(mm["fn"]).endswith("dtype"):
                try:
                    fields = [(it[1][0][1], it[1][1][1]) for it in mm["items"]]
                except Exception:
                    fields = None
        if fields is None:
            R.undecided(key, fi.where(), "structured dtype of the view not understood")
            continue
        want = [("second_fractions", "<u8"), ("seconds", "<i8")] if which == "<" else [("seconds", ">i8"), ("second_fractions", ">u8")]
        R.check(fields == want, key, fi.where(), "%s-endian layout %s" % (which, fields),
                "%s-endian array layout %s: expected unsigned fractions / signed seconds, fractions first only when little-endian, "
                "byte-order characters matching the branch" % (which, fields))
    # 5: TdmsTimestamp.__init__(seconds, second_fractions) stores by name
    R.check(tinit.params[1:3] == ["seconds", "second_fractions"], "timestamp.TdmsTimestamp.__init__::signature", tinit.where(),
            "(seconds, second_fractions)", "constructor parameter order changed to %s while callers pass (seconds, second_fractions)" % tinit.params[1:])
    for n in walk_body(tinit.node):
        if isinstance(n, ast.Assign) and isinstance(n.targets[0], ast.Attribute) and isinstance(n.value, ast.Name) and n.value.id in tinit.params:
            R.check(n.targets[0].attr == n.value.id, "timestamp.TdmsTimestamp.__init__::self.%s" % n.targets[0].attr, tinit.where(n),
                    "stored by name", "self.%s = %s" % (n.targets[0].attr, n.value.id))
    # 6: TimestampArray._field_indices <-> __getitem__
    new = prog.func("timestamp.TimestampArray.__new__")
    gi = prog.func("timestamp.TimestampArray.__getitem__")
    for n in walk_body(new.node):
        if isinstance(n, ast.If) and isinstance(n.test, ast.Compare) and isinstance(n.test.comparators[0], ast.Tuple):
            names = prog.try_fold(n.test.comparators[0], new.module)
            for s_ in n.body:
                if isinstance(s_, ast.Assign) and isinstance(s_.targets[0], ast.Attribute) and s_.targets[0].attr == "_field_indices":
                    idx = prog.try_fold(s_.value, new.module)
                    good = isinstance(names, tuple) and isinstance(idx, tuple) and len(idx) == 2 and \
                        names[idx[0]] == "seconds" and names[idx[1]] == "second_fractions"
                    R.check(good, "timestamp.TimestampArray.__new__::%s" % (names,), new.where(s_),
                            "_field_indices %s selects (seconds, second_fractions)" % (idx,),
                            "field names %s with _field_indices %s: index 0 must select 'seconds', index 1 'second_fractions'" % (names, idx))
    sg = Sym(prog, gi, gi.cls, inline=False)
    from .sem import norm_items
    for n in walk_body(gi.node):
        if isinstance(n, ast.Call) and isinstance(n.func, (ast.Name, ast.Attribute)) and prog.resolve_class(gi.module, n.func) is TS:
            env, _g = sg.env_at(n)
            a = norm_items(call_arg(prog, n, tinit, "seconds", sg, env))
            b = norm_items(call_arg(prog, n, tinit, "second_fractions", sg, env))
            FI = ("self", "_field_indices")
            good = a is not None and b is not None and a[0] == "sub" and b[0] == "sub" and a[1] == b[1] and a[2] == ("item", FI, 0) and b[2] == ("item", FI, 1)
            R.check(good, "timestamp.TimestampArray.__getitem__::TdmsTimestamp(...)", gi.where(n),
                    "TdmsTimestamp(val[idx[0]], val[idx[1]])", "scalar access builds TdmsTimestamp(seconds=%s, second_fractions=%s)" % (
                        show(alpha(a))[:60] if a else None, show(alpha(b))[:60] if b else None))
    # 7: TimestampDataReceiver: native layout + copies by field name
    tdr = prog.cls("channel_data.TimestampDataReceiver")
    n_assign = 0
    # the receiver's own methods, and the helpers of its module that deal with raw timestamps (they mention the record fields or the
    # datetime64 conversion) and store into the array they are given
    ts_funcs = [m for _nm, m in sorted(tdr.methods.items())]
    for f_ in sorted(prog.functions.values(), key=lambda f: f.qual):
        if f_.module is tdr.module and f_ not in ts_funcs and f_.cls is not tdr and any(
                (isinstance(x, ast.Constant) and x.value in ("seconds", "second_fractions")) or (isinstance(x, ast.Attribute) and x.attr == "as_datetime64")
                for x in ast.walk(f_.node)):
            ts_funcs.append(f_)

    def is_store_base(f_, b):
        d_ = dotted(b)
        if isinstance(b, ast.Name) and f_.cls is tdr:
            # a local that holds the field: data = self.data (bound once)
            binds = [x.value for x in walk_body(f_.node) if isinstance(x, ast.Assign) and any(isinstance(t_, ast.Name) and t_.id == b.id for t_ in x.targets)]
            if len(binds) == 1 and dotted(binds[0]) == "self.data":
                return True
        return d_ == "self.data" or (f_.cls is not tdr and isinstance(b, ast.Name) and b.id in f_.params)
    for fi, n in [(m, n) for m in ts_funcs for n in walk_body(m.node)]:
        if isinstance(n, ast.Assign) and len(n.targets) == 1 and dotted(n.targets[0]) == "self.data" and fi.cls is tdr and fi.name != "__init__":
            # the receiver's array replaced by what it was given: the chunk's own records (layout and byte order of the segment)
            v_ = n.value
            while isinstance(v_, ast.Call) and isinstance(v_.func, ast.Attribute) and v_.func.attr in ("view", "copy", "astype", "newbyteorder"):
                v_ = v_.func.value
            if isinstance(v_, ast.Name) and v_.id in fi.params and fi.params.index(v_.id) > 0:
                n_assign += 1
                R.violation("channel_data.TimestampDataReceiver::store self.data", fi.where(n), "the receiver keeps the chunk it was given as its array (`%s`) instead of "
                            "copying the two fields by name into its own little-endian (second_fractions, seconds) array: a chunk of a big-endian segment has the fields "
                            "in the opposite order and byte order, so everything that takes the array as the on-disk layout (TdmsWriter / defragment, dtype comparisons) is wrong" % unparse(n)[:80])
        if isinstance(n, ast.Assign) and len(n.targets) == 1 and isinstance(n.targets[0], ast.Subscript):
            t = n.targets[0]
            base = t.value
            if is_store_base(fi, base):
                n_assign += 1
                # positional (whole-record) store: only allowed for converted datetime64 data
                def kind_of(v_, depth=0):
                    """'converted' (as_datetime64 result) / 'records' (the chunk's records themselves, possibly cast or viewed) / None"""
                    if isinstance(v_, ast.Call) and isinstance(v_.func, ast.Attribute) and v_.func.attr == "as_datetime64":
                        return "converted"
                    if isinstance(v_, ast.Call) and isinstance(v_.func, ast.Attribute) and v_.func.attr in ("astype", "view", "copy", "newbyteorder", "byteswap"):
                        return kind_of(v_.func.value, depth + 1)
                    if isinstance(v_, ast.Name):
                        if v_.id in fi.params:
                            return "records"
                        binds = [x.value for x in walk_body(fi.node) if isinstance(x, ast.Assign) and any(isinstance(t_, ast.Name) and t_.id == v_.id for t_ in x.targets)]
                        if len(binds) == 1 and depth < 4:
                            return kind_of(binds[0], depth + 1)
                    return None
                k_ = kind_of(n.value)
                key_ = "channel_data.TimestampDataReceiver::store self.data[...]"
                if k_ == "converted":
                    R.ok(key_, fi.where(n), "stores converted datetime64 values")
                elif k_ == "records" and _same_layout_guard(prog, fi, n):
                    R.ok(key_, fi.where(n), "whole records are copied only where the chunk's dtype equals the storage dtype (same field order and byte order)")
                elif k_ == "records":
                    R.violation(key_, fi.where(n), "raw timestamp records are copied positionally (`%s`): NumPy assigns structured arrays by field position, and "
                                "big-endian chunks have the fields in the opposite order" % unparse(n))
                else:
                    R.unrecognised(key_, fi.where(n), "what is stored by `%s` is neither the converted values nor the chunk's records" % unparse(n)[:80])
            elif isinstance(base, ast.Subscript) and is_store_base(fi, base.value) and isinstance(base.slice, ast.Constant):
                n_assign += 1
                fld = base.slice.value
                v = n.value
                same_ = isinstance(v, ast.Subscript) and isinstance(v.slice, ast.Constant) and v.slice.value == fld
                R.check(same_, "channel_data.TimestampDataReceiver::field %s" % fld, fi.where(n),
                        "copies field %r by name" % fld, "field %r is filled from `%s`" % (fld, unparse(v)))
    if n_assign < 1:
        R.unrecognised("channel_data.TimestampDataReceiver::stores", "%s:%d" % (tdr.module.relpath, tdr.node.lineno),
                       "no subscript store into self.data in the timestamp receiver or its helpers: how chunks are copied was not recognised")


def _same_layout_guard(prog, fi, node):
    """the statement runs only where a dtype of the incoming data was compared equal with a dtype (of the storage): then a positional
    copy of structured records is a copy by name as well"""
    from .sym import Sym, contains
    try:
        _env, guards = Sym(prog, fi, fi.cls, inline=False).env_at(node)
    except Exception:
        return False
    def mentions_dtype(t):
        return contains(t, lambda y: isinstance(y, tuple) and ((len(y) == 3 and y[0] == "attr" and y[2] == "dtype") or
                                                                 (y and y[0] == "call" and y[1] == "getattr" and len(y) > 2 and ("const", "dtype") in y[2]) or
                                                                 (len(y) == 2 and y[0] == "self" and "dtype" in str(y[1]))))
    for g in guards:
        if isinstance(g, tuple) and len(g) == 4 and g[0] == "cmp" and g[1] == "==" and mentions_dtype(g[2]) and mentions_dtype(g[3]):
            return True
    return False


def _endian_branches(fi):
    """{'<': stmts, '>': stmts} for `if endianness == "<": ... else: ...` in fi."""
    for n in walk_body(fi.node):
        if isinstance(n, ast.If) and isinstance(n.test, ast.Compare) and len(n.test.ops) == 1 \
                and isinstance(n.test.comparators[0], ast.Constant) and n.test.comparators[0].value in ("<", ">") \
                and isinstance(n.test.ops[0], (ast.Eq, ast.NotEq)):
            lit = n.test.comparators[0].value
            eq = isinstance(n.test.ops[0], ast.Eq)
            other = ">" if lit == "<" else "<"
            return {lit: n.body, other: n.orelse} if eq else {other: n.body, lit: n.orelse}
    raise AnchorMissing("%s: branch on the byte order" % fi.qual)
