"""Readings of performance idioms, applied to the syntax trees before anything is indexed.

The rules describe the binary layout in terms of `struct.unpack(fmt, bytes)` / `struct.pack(fmt, ...)` and of calls on the
object that owns a method.  Code that was tuned for speed says the same things through objects prepared in advance:

  S = struct.Struct('<lQQ')                 S.unpack(b)            ==  struct.unpack('<lQQ', b)
                                            S.unpack_from(b, 8)    ==  struct.unpack('<lQQ', b[8:28])
                                            S.pack(x, y)           ==  struct.pack('<lQQ', x, y)
                                            S.size                 ==  20
  u = S.unpack                              u(b)                   ==  struct.unpack('<lQQ', b)
  T = {'<': Struct('<L'), '>': Struct('>L')}  T[e].unpack(b)       ==  struct.unpack(e + 'L', b)        (for the keys of T)
  def compiled(f): return struct.Struct(f)  compiled(e + 'L').unpack(b) == struct.unpack(e + 'L', b)
  read = file.read   (bound once, called only)   read(n)           ==  file.read(n)

Each rewriting is an equality of values for every argument the prepared object accepts (a table of prepared structs raises
KeyError instead of struct.error for a byte order that is not a key; none of the rules depends on which error that is).  A shape
that is not one of these is left as it is.  Positions are kept (copy_location), so reports still point at the source line."""
import ast
import struct as _struct

from .core import dotted


def _is_struct_ctor(call, imports):
    if not isinstance(call, ast.Call) or len(call.args) != 1 or call.keywords:
        return False
    d = dotted(call.func)
    if d is None:
        return False
    if d in ("struct.Struct",) and imports.get("struct", "struct") == "struct":
        return True
    return imports.get(d) == "struct.Struct"


class _Env:
    """module-level bindings of all modules: name -> value expression, and where imported names come from"""

    def __init__(self, modules):
        self.assigns, self.imports, self.funcs = {}, {}, {}
        self.stored_attrs = set()      # attribute names stored anywhere outside constructors
        self.stored_prefixes = set()
        self.ext_aliases = {}          # module -> {name: <external module>.<attr> it is bound to, once, at module level}
        for name, tree in modules.items():
            a, im, fs = {}, {}, {}
            counts = {}
            for node in tree.body:
                if isinstance(node, ast.Import):
                    for al in node.names:
                        im[al.asname or al.name.split(".")[0]] = al.name if al.asname else al.name.split(".")[0]
                elif isinstance(node, ast.ImportFrom):
                    base = node.module or ""
                    for al in node.names:
                        im[al.asname or al.name] = (("." * node.level) + base + "." + al.name) if node.level else (base + "." + al.name)
                elif isinstance(node, ast.Assign):
                    for t in node.targets:
                        if isinstance(t, ast.Name):
                            a[t.id] = node.value
                            counts[t.id] = counts.get(t.id, 0) + 1
                elif isinstance(node, ast.FunctionDef):
                    fs[node.name] = node
            for fn in ast.walk(tree):
                if isinstance(fn, ast.FunctionDef) and fn.name not in ("__init__", "__new__"):
                    for n in ast.walk(fn):
                        if isinstance(n, ast.Attribute) and isinstance(n.ctx, (ast.Store, ast.Del)):
                            self.stored_attrs.add(n.attr)
                        elif isinstance(n, ast.Call) and isinstance(n.func, ast.Name) and n.func.id in ("setattr", "delattr") and len(n.args) >= 2:
                            a1 = n.args[1]
                            if isinstance(a1, ast.Name):
                                # attr_name = '_cached_prop_' + func.__name__: every attribute with that prefix
                                defs = [x.value for x in ast.walk(tree) if isinstance(x, ast.Assign) and any(isinstance(t, ast.Name) and t.id == a1.id for t in x.targets)]
                                if len(defs) == 1 and isinstance(defs[0], ast.BinOp) and isinstance(defs[0].op, ast.Add) and isinstance(defs[0].left, ast.Constant) \
                                        and isinstance(defs[0].left.value, str) and defs[0].left.value:
                                    self.stored_prefixes.add(defs[0].left.value)
                                    continue
                            self.stored_attrs.add(a1.value if isinstance(a1, ast.Constant) else "*")
            self.assigns[name] = {k: v for k, v in a.items() if counts[k] == 1}
            ext = {}
            for k, v in self.assigns[name].items():
                d = dotted(v) if isinstance(v, ast.Attribute) else None
                if d and d.split(".")[0] in im and not im[d.split(".")[0]].lstrip(".").startswith("nptdms") and not im[d.split(".")[0]].startswith("."):
                    ext[k] = v
            self.ext_aliases[name] = ext
            self.imports[name] = im
            self.funcs[name] = fs

    def lookup(self, mod, name, kind="assigns"):
        """(module, value) of a module-level name, followed through one `from .x import name`"""
        table = getattr(self, kind)
        if name in table.get(mod, {}):
            return mod, table[mod][name]
        src = self.imports.get(mod, {}).get(name)
        if src:
            parts = src.lstrip(".").split(".")
            if parts and parts[0] == "nptdms":
                parts = parts[1:]
            if len(parts) >= 2:
                m2, n2 = ".".join(parts[:-1]), parts[-1]
                if n2 in table.get(m2, {}):
                    return m2, table[m2][n2]
        return None, None


def _subst(expr, mapping):
    class S(ast.NodeTransformer):
        def visit_Name(self, n):
            if isinstance(n.ctx, ast.Load) and n.id in mapping:
                return mapping[n.id]
            return n
    import copy
    return S().visit(copy.deepcopy(expr))


class _Rewriter(ast.NodeTransformer):
    def __init__(self, env, mod, cls_attrs, local):
        self.env, self.mod, self.cls_attrs, self.local = env, mod, cls_attrs, local
        self.changed = False
        self.depth = 0

    # -- format of a prepared struct --------------------------------------------------------------------------------------
    def fmt(self, e, mod=None, depth=0):
        mod = mod or self.mod
        if depth > 6:
            return None
        imports = self.env.imports.get(mod, {})
        if isinstance(e, ast.Call):
            if _is_struct_ctor(e, imports):
                return e.args[0]
            # a function that only wraps the constructor
            m2 = fn = None
            if isinstance(e.func, ast.Name) and not e.keywords:
                m2, fn = self.env.lookup(mod, e.func.id, "funcs")
            elif isinstance(e.func, ast.Attribute) and isinstance(e.func.value, ast.Name) and not e.keywords:
                # module-qualified:  types.get_struct(fmt)
                src = imports.get(e.func.value.id, "")
                mname = src.lstrip(".").split(".")
                mname = ".".join(mname[1:]) if mname and mname[0] == "nptdms" else ".".join(mname)
                if mname in self.env.funcs and e.func.attr in self.env.funcs[mname]:
                    m2, fn = mname, self.env.funcs[mname][e.func.attr]
            if fn is not None:
                # memoised constructor:  def get(f): try: return CACHE[f] / except KeyError: s = Struct(f); CACHE[f] = s; return s
                params = [a.arg for a in fn.args.args]
                ctors = [c for c in ast.walk(fn) if isinstance(c, ast.Call) and _is_struct_ctor(c, self.env.imports.get(m2, {}))]
                if len(params) == 1 and len(e.args) == 1 and ctors and all(isinstance(c.args[0], ast.Name) and c.args[0].id == params[0] for c in ctors):
                    locals_ = {t.id for a_ in ast.walk(fn) if isinstance(a_, ast.Assign) and any(a_.value is c for c in ctors)
                               for t in a_.targets if isinstance(t, ast.Name)}
                    rets = [r.value for r in ast.walk(fn) if isinstance(r, ast.Return)]

                    def is_it(v):
                        return any(v is c for c in ctors) or (isinstance(v, ast.Name) and v.id in locals_) or (
                            isinstance(v, ast.Subscript) and isinstance(v.value, ast.Name) and isinstance(v.slice, ast.Name) and v.slice.id == params[0]
                            and v.value.id in self.env.assigns.get(m2, {}))
                    if rets and all(v is not None and is_it(v) for v in rets) and len(fn.body) > 1:
                        return e.args[0]
            if isinstance(e.func, (ast.Name, ast.Attribute)) and not e.keywords:
                if fn is not None:
                    body = [s for s in fn.body if not (isinstance(s, ast.Expr) and isinstance(s.value, ast.Constant))]
                    params = [a.arg for a in fn.args.args]
                    if len(body) == 1 and isinstance(body[0], ast.Return) and body[0].value is not None and len(params) == len(e.args) \
                            and not fn.args.vararg and not fn.args.kwarg and not fn.args.kwonlyargs:
                        inner = self.fmt(body[0].value, m2, depth + 1)
                        if inner is not None:
                            return _subst(inner, dict(zip(params, e.args)))
            return None
        if isinstance(e, ast.Name):
            if mod == self.mod and e.id in self.local:
                return self.fmt(self.local[e.id], mod, depth + 1)
            m2, v = self.env.lookup(mod, e.id)
            return self.fmt(v, m2, depth + 1) if v is not None else None
        if isinstance(e, ast.Attribute) and isinstance(e.value, ast.Name) and e.value.id in ("self", "cls") and mod == self.mod and e.attr in self.cls_attrs:
            return self.fmt(self.cls_attrs[e.attr], mod, depth + 1)
        if isinstance(e, ast.IfExp):
            a, b = self.fmt(e.body, mod, depth + 1), self.fmt(e.orelse, mod, depth + 1)
            if a is not None and b is not None:
                return self._choice(e.test, a, b)
            return None
        if isinstance(e, ast.Subscript):
            return self._table_entry(e, mod, depth, lambda v, m: self.fmt(v, m, depth + 1))
        return None

    def _choice(self, test, a, b):
        """format chosen by a test between two formats"""
        if True:
            if True:
                if isinstance(a, ast.Constant) and isinstance(b, ast.Constant) and isinstance(a.value, str) and isinstance(b.value, str):
                    # '>lQQ' if c else '<lQQ'  ==  ('>' if c else '<') + 'lQQ'
                    k = 0
                    while k < min(len(a.value), len(b.value)) and a.value[len(a.value) - 1 - k] == b.value[len(b.value) - 1 - k]:
                        k += 1
                    if k and (len(a.value) > k or len(b.value) > k):
                        return ast.BinOp(left=ast.IfExp(test=test, body=ast.Constant(value=a.value[:len(a.value) - k]),
                                                        orelse=ast.Constant(value=b.value[:len(b.value) - k])),
                                         op=ast.Add(), right=ast.Constant(value=a.value[len(a.value) - k:]))
                return ast.IfExp(test=test, body=a, orelse=b)

    def _table_entry(self, e, mod, depth, value_of):
        """T[k] for a module-level table T of prepared values whose formats are <key> + <one common rest>, or a comprehension"""
        t = e.value
        if isinstance(t, ast.Name):
            m2, tv = self.env.lookup(mod, t.id)
        else:
            return None
        key = e.slice
        if isinstance(tv, ast.Dict) and tv.keys and all(isinstance(k, ast.Constant) and isinstance(k.value, str) for k in tv.keys):
            rests = set()
            for k, v in zip(tv.keys, tv.values):
                f = value_of(v, m2)
                if not (isinstance(f, ast.Constant) and isinstance(f.value, str) and f.value.startswith(k.value)):
                    return None
                rests.add(f.value[len(k.value):])
            if len(rests) == 1:
                return ast.BinOp(left=key, op=ast.Add(), right=ast.Constant(value=rests.pop()))
            return None
        if isinstance(tv, ast.DictComp):
            kt = tv.key
            names = [kt.id] if isinstance(kt, ast.Name) else [x.id for x in kt.elts] if isinstance(kt, ast.Tuple) and all(isinstance(x, ast.Name) for x in kt.elts) else None
            if names is None:
                return None
            keys = [key] if len(names) == 1 else list(key.elts) if isinstance(key, ast.Tuple) and len(key.elts) == len(names) else None
            if keys is None:
                return None
            f = value_of(tv.value, m2)
            if f is None:
                return None
            free = {n.id for n in ast.walk(f) if isinstance(n, ast.Name)}
            bound = {n.id for g in tv.generators for n in ast.walk(g.target) if isinstance(n, ast.Name)}
            if (free & bound) - set(names):
                return None
            return _subst(f, dict(zip(names, keys)))
        return None

    # -- a bound method of a prepared struct: (format, method name) -------------------------------------------------------
    def bound(self, e, mod=None, depth=0):
        mod = mod or self.mod
        if depth > 6:
            return None
        if isinstance(e, ast.Attribute) and e.attr in ("unpack", "unpack_from", "pack"):
            f = self.fmt(e.value, mod, depth + 1)
            return (f, e.attr) if f is not None else None
        if isinstance(e, ast.Name):
            if mod == self.mod and e.id in self.local:
                return self.bound(self.local[e.id], mod, depth + 1)
            m2, v = self.env.lookup(mod, e.id)
            return self.bound(v, m2, depth + 1) if v is not None else None
        if isinstance(e, ast.IfExp):
            # unpack = unpack_be if big_endian else unpack_le
            a, b = self.bound(e.body, mod, depth + 1), self.bound(e.orelse, mod, depth + 1)
            if a is not None and b is not None and a[1] == b[1]:
                return self._choice(e.test, a[0], b[0]), a[1]
            return None
        if isinstance(e, ast.Subscript):
            meth = []

            def value_of(v, m):
                b = self.bound(v, m, depth + 1)
                if b is None:
                    return None
                meth.append(b[1])
                return b[0]
            f = self._table_entry(e, mod, depth, value_of)
            if f is not None and len(set(meth)) == 1:
                return f, meth[0]
        return None

    def _size(self, f):
        if isinstance(f, ast.Constant) and isinstance(f.value, str):
            try:
                return ast.Constant(value=_struct.calcsize(f.value))
            except _struct.error:
                return None
        return ast.Call(func=ast.Attribute(value=ast.Name(id="struct", ctx=ast.Load()), attr="calcsize", ctx=ast.Load()), args=[f], keywords=[])

    def _call(self, name, args, at):
        new = ast.Call(func=ast.Attribute(value=ast.Name(id="struct", ctx=ast.Load()), attr=name, ctx=ast.Load()), args=args, keywords=[])
        ast.copy_location(new, at)
        for n in ast.walk(new):
            if not hasattr(n, "lineno"):
                ast.copy_location(n, at)
        ast.fix_missing_locations(new)
        self.changed = True
        return new

    def visit_Call(self, node):
        self.generic_visit(node)
        if node.keywords:
            return node
        b = None
        if isinstance(node.func, (ast.Attribute, ast.Name, ast.Subscript)):
            if isinstance(node.func, ast.Attribute) and node.func.attr not in ("unpack", "unpack_from", "pack"):
                return node
            if isinstance(node.func, ast.Attribute) and dotted(node.func.value) == "struct":
                return node
            b = self.bound(node.func)
        if b is None:
            return node
        f, m = b
        import copy
        f = copy.deepcopy(f)
        if m == "unpack" and len(node.args) == 1:
            return self._call("unpack", [f, node.args[0]], node)
        if m == "pack":
            return self._call("pack", [f] + list(node.args), node)
        if m == "unpack_from" and 1 <= len(node.args) <= 2:
            n = self._size(f)
            if n is None:
                return node
            off = node.args[1] if len(node.args) == 2 else None
            if off is None:
                sl = ast.Slice(lower=None, upper=n, step=None)
            elif isinstance(off, ast.Constant) and isinstance(n, ast.Constant):
                sl = ast.Slice(lower=off, upper=ast.Constant(value=off.value + n.value), step=None)
            else:
                sl = ast.Slice(lower=off, upper=ast.BinOp(left=copy.deepcopy(off), op=ast.Add(), right=n), step=None)
            buf = ast.Subscript(value=node.args[0], slice=sl, ctx=ast.Load())
            return self._call("unpack", [f, buf], node)
        return node

    def visit_Attribute(self, node):
        self.generic_visit(node)
        if node.attr == "size" and isinstance(node.ctx, ast.Load) and isinstance(node.value, (ast.Name, ast.Subscript, ast.Call)):
            f = self.fmt(node.value)
            if f is not None:
                n = self._size(f)
                if n is not None:
                    self.changed = True
                    return ast.copy_location(n, node) if isinstance(n, ast.Constant) else ast.fix_missing_locations(ast.copy_location(n, node))
        return node


def _single_assignments(fn):
    """names of a function that are bound exactly once, by a plain `name = expr` that is not inside a loop, and are not parameters"""
    params = {a.arg for a in fn.args.args + fn.args.kwonlyargs + fn.args.posonlyargs}
    if fn.args.vararg:
        params.add(fn.args.vararg.arg)
    if fn.args.kwarg:
        params.add(fn.args.kwarg.arg)
    counts, value, in_loop = {}, {}, set()
    pair_stmt = _single_assignments.pair_stmt = {}

    def walk(stmts, loop):
        for s in stmts:
            if isinstance(s, (ast.FunctionDef, ast.AsyncFunctionDef, ast.ClassDef, ast.Lambda)):
                continue
            if isinstance(s, ast.Assign) and len(s.targets) == 1 and isinstance(s.targets[0], ast.Name):
                nm = s.targets[0].id
                counts[nm] = counts.get(nm, 0) + 1
                value[nm] = s.value
                if loop:
                    in_loop.add(nm)
            elif isinstance(s, ast.Assign) and len(s.targets) == 1 and isinstance(s.targets[0], ast.Tuple) and isinstance(s.value, ast.Tuple) \
                    and len(s.targets[0].elts) == len(s.value.elts) and all(isinstance(t, ast.Name) for t in s.targets[0].elts) \
                    and all(isinstance(v, (ast.Attribute, ast.Name, ast.Constant)) for v in s.value.elts):
                # start, end = self.start, self.end: parallel plain assignments (the right-hand sides have no effects)
                for t, v in zip(s.targets[0].elts, s.value.elts):
                    counts[t.id] = counts.get(t.id, 0) + 1
                    value[t.id] = v
                    pair_stmt[t.id] = s
            else:
                for n in ast.walk(s):
                    if isinstance(n, ast.Name) and isinstance(n.ctx, (ast.Store, ast.Del)):
                        # bound by something else (for target, with, tuple assignment, walrus, augmented assignment ...)
                        if not (isinstance(s, (ast.For, ast.While, ast.If, ast.With, ast.Try))):
                            counts[n.id] = counts.get(n.id, 0) + 2
            if isinstance(s, (ast.For, ast.AsyncFor)):
                for n in ast.walk(s.target):
                    if isinstance(n, ast.Name):
                        counts[n.id] = counts.get(n.id, 0) + 2
                walk(s.body, True); walk(s.orelse, loop)
            elif isinstance(s, ast.While):
                for n in ast.walk(s.test):
                    if isinstance(n, ast.NamedExpr) and isinstance(n.target, ast.Name):
                        counts[n.target.id] = counts.get(n.target.id, 0) + 2
                walk(s.body, True); walk(s.orelse, loop)
            elif isinstance(s, ast.If):
                for n in ast.walk(s.test):
                    if isinstance(n, ast.NamedExpr) and isinstance(n.target, ast.Name):
                        counts[n.target.id] = counts.get(n.target.id, 0) + 2
                walk(s.body, loop); walk(s.orelse, loop)
            elif isinstance(s, (ast.With, ast.AsyncWith)):
                for it in s.items:
                    if it.optional_vars is not None:
                        for n in ast.walk(it.optional_vars):
                            if isinstance(n, ast.Name):
                                counts[n.id] = counts.get(n.id, 0) + 2
                walk(s.body, loop)
            elif isinstance(s, ast.Try):
                walk(s.body, loop); walk(s.orelse, loop); walk(s.finalbody, loop)
                for h in s.handlers:
                    if h.name:
                        counts[h.name] = counts.get(h.name, 0) + 2
                    walk(h.body, loop)
    walk(fn.body, False)
    return {k: value[k] for k, c in counts.items() if c == 1 and k in value and k not in params}


def _loops_around(fn):
    """id(statement) -> list of enclosing loop statements"""
    out = {}

    def walk(stmts, loops):
        for s in stmts:
            out[id(s)] = loops
            if isinstance(s, (ast.FunctionDef, ast.AsyncFunctionDef, ast.ClassDef)):
                continue
            inner = loops + [s] if isinstance(s, (ast.For, ast.AsyncFor, ast.While)) else loops
            for f in ("body", "orelse", "finalbody"):
                walk(getattr(s, f, []) or [], inner)
            for h in getattr(s, "handlers", []) or []:
                walk(h.body, inner)
    walk(fn.body, [])
    return out


def _alias_bound_methods(fn, local, imports=(), anyload=None, module_names=(), final_attrs=None, cls_node=None):
    params = {a.arg for a in fn.args.args + fn.args.kwonlyargs + fn.args.posonlyargs}
    anyload = anyload if anyload is not None else set()
    """`read = file.read` (bound once, receiver not rebound afterwards, name used only as the callee):
    calls through the name are calls of the method on the receiver"""
    out = {}
    stores = {}          # dotted name -> statements' line numbers storing it
    for n in ast.walk(fn):
        if isinstance(n, ast.Name) and isinstance(n.ctx, (ast.Store, ast.Del)):
            stores.setdefault(n.id, []).append(n)
        elif isinstance(n, ast.Attribute) and isinstance(n.ctx, (ast.Store, ast.Del)):
            stores.setdefault(dotted(n) or "?", []).append(n)
    loops = _loops_around(fn)
    stmts = {}
    for s in ast.walk(fn):
        if isinstance(s, ast.Assign) and len(s.targets) == 1 and isinstance(s.targets[0], ast.Name):
            stmts.setdefault(s.targets[0].id, s)
        elif isinstance(s, ast.Assign) and len(s.targets) == 1 and isinstance(s.targets[0], ast.Tuple) and isinstance(s.value, ast.Tuple) \
                and len(s.targets[0].elts) == len(s.value.elts):
            for t, v_ in zip(s.targets[0].elts, s.value.elts):
                if isinstance(t, ast.Name) and local.get(t.id) is v_:
                    stmts.setdefault(t.id, s)
    for name, v in local.items():
        st = stmts.get(name)
        if st is None or id(st) not in loops:
            continue
        if st.value is not v and not (isinstance(st.value, ast.Tuple) and any(x is v for x in st.value.elts)):
            continue
        d = dotted(v) if isinstance(v, (ast.Attribute, ast.Name)) else None
        if d is None:
            continue
        parts = d.split(".")
        if isinstance(v, ast.Name) and (v.id in stores or v.id not in module_names):
            continue            # only a module-level function or an imported name is followed through a plain rename
        # the receiver (and every prefix of it) is not stored after the alias is taken: stores come textually before it and are not
        # in a loop around it
        stable = True
        for i in range(1, len(parts)):
            for n in stores.get(".".join(parts[:i]), []):
                if n.lineno >= st.lineno or any(any(x is n for x in ast.walk(l)) for l in loops[id(st)]):
                    stable = False
        if not stable:
            continue
        uses = [n for n in ast.walk(fn) if isinstance(n, ast.Name) and n.id == name and isinstance(n.ctx, ast.Load)]
        callee_uses = {id(c.func) for c in ast.walk(fn) if isinstance(c, ast.Call) and isinstance(c.func, ast.Name) and c.func.id == name}
        if uses and all(id(u) in callee_uses for u in uses):
            out[name] = v
        elif uses and isinstance(v, ast.Attribute) and final_attrs is not None and all(a in final_attrs for a in parts[1:]) \
                and (parts[0] == "self" or parts[0] in params) and parts[0] not in stores:
            # objects = self.objects, for a field that is only ever stored by constructors: the local is the field
            out[name] = v
            anyload.add(name)
        elif uses and isinstance(v, ast.Attribute) and len(parts) == 2 and parts[0] == "self" and cls_node is not None \
                and all(n.lineno > max(u.lineno for u in uses) for n in stores.get(d, [])) and not loops[id(st)] \
                and not _own_calls_store(fn, cls_node, parts[1]):
            # reader = self._reader ... reader.close() ... self._reader = None: the field is not stored while the local is in use
            out[name] = v
            anyload.add(name)
        elif uses and parts[0] in imports and parts[0] not in stores:
            # seek_set = os.SEEK_SET: a name of an imported module, read wherever the local is read
            out[name] = v
            anyload.add(name)
    return out


def _own_calls_store(fn, cls_node, attr):
    """does fn call a method of its own class (self.m(...)) that stores self.<attr>, or is fn a generator (its caller runs between
    the steps)"""
    if any(isinstance(n, (ast.Yield, ast.YieldFrom)) for n in ast.walk(fn)):
        return True
    if cls_node is None:
        return False
    methods = {m.name: m for m in cls_node.body if isinstance(m, ast.FunctionDef)}
    for c in ast.walk(fn):
        if isinstance(c, ast.Call) and isinstance(c.func, ast.Attribute) and isinstance(c.func.value, ast.Name) and c.func.value.id == "self":
            m = methods.get(c.func.attr)
            if m is not None and m is not fn and any(isinstance(n, ast.Attribute) and n.attr == attr and isinstance(n.ctx, (ast.Store, ast.Del)) for n in ast.walk(m)):
                return True
    return False


class _ExitStackReader(ast.NodeTransformer):
    """with ExitStack() as S:                       try:
           if C: S.callback(F, *A)          ==          <rest>
           <rest, which does not mention S>          finally:
                                                         if C: F(*A)
    (registrations at the head of the block, C over names the rest does not rebind, callbacks run in reverse order)"""

    def __init__(self, imports):
        self.imports = imports
        self.changed = False

    def visit_FunctionDef(self, node):
        return node

    def visit_With(self, node):
        self.generic_visit(node)
        if len(node.items) != 1 or not isinstance(node.items[0].optional_vars, ast.Name):
            return node
        ce = node.items[0].context_expr
        d = dotted(ce.func) if isinstance(ce, ast.Call) and not ce.args and not ce.keywords else None
        if d is None or not (d == "contextlib.ExitStack" or self.imports.get(d) == "contextlib.ExitStack"):
            return node
        S = node.items[0].optional_vars.id
        regs, rest = [], list(node.body)

        def registration(st):
            # S.callback(F, *A)  ->  (F, A)
            if isinstance(st, ast.Expr) and isinstance(st.value, ast.Call) and isinstance(st.value.func, ast.Attribute) and st.value.func.attr == "callback" \
                    and isinstance(st.value.func.value, ast.Name) and st.value.func.value.id == S and st.value.args and not st.value.keywords:
                return st.value.args[0], list(st.value.args[1:])
            return None
        while rest:
            st = rest[0]
            r = registration(st)
            if r is not None:
                regs.append((None, r, st))
            elif isinstance(st, ast.If) and not st.orelse and len(st.body) == 1 and registration(st.body[0]) is not None \
                    and not any(isinstance(x, (ast.Call, ast.NamedExpr)) for x in ast.walk(st.test)):
                regs.append((st.test, registration(st.body[0]), st))
            else:
                break
            rest.pop(0)
        if not regs or not rest or any(isinstance(x, ast.Name) and x.id == S for y in rest for x in ast.walk(y)):
            return node
        stored = {x.id for y in rest for x in ast.walk(y) if isinstance(x, ast.Name) and isinstance(x.ctx, (ast.Store, ast.Del))} | {
            dotted(x) for y in rest for x in ast.walk(y) if isinstance(x, ast.Attribute) and isinstance(x.ctx, (ast.Store, ast.Del))}
        for test, (F, A), _st in regs:
            used = {x.id for e in ([test] if test is not None else []) + [F] + A for x in ast.walk(e) if isinstance(x, ast.Name)}
            chains = {dotted(x) for e in [F] + A for x in ast.walk(e) if isinstance(x, ast.Attribute) and dotted(x)}
            if (used & stored) or any(c_ == s_ or c_.startswith(s_ + ".") for c_ in chains for s_ in stored if s_):
                return node
        final = []
        for test, (F, A), st in reversed(regs):
            call = ast.Expr(value=ast.Call(func=F, args=A, keywords=[]))
            ast.copy_location(call, st); ast.copy_location(call.value, st)
            if test is not None:
                call = ast.copy_location(ast.If(test=test, body=[call], orelse=[]), st)
            final.append(call)
        new = ast.Try(body=rest, handlers=[], orelse=[], finalbody=final)
        ast.copy_location(new, node)
        self.changed = True
        return new


def _pure_properties(cls_node, module_names=()):
    """properties of the class whose getter is `return <test over self's attributes>` (a comparison / and / or / not, no calls):
    name -> expression.  A property that merely hands out a field (an accessor) keeps its name: the rules know such names."""
    out = {}
    if cls_node is None:
        return out
    for m in cls_node.body:
        if isinstance(m, ast.FunctionDef) and any(isinstance(d, ast.Name) and d.id == "property" for d in m.decorator_list) and len(m.args.args) == 1:
            body = [x for x in m.body if not (isinstance(x, ast.Expr) and isinstance(x.value, ast.Constant))]
            rv = body[0].value if len(body) == 1 and isinstance(body[0], ast.Return) else None
            inner = rv.args[0] if isinstance(rv, ast.Call) and isinstance(rv.func, ast.Name) and rv.func.id == "bool" and len(rv.args) == 1 and not rv.keywords else rv
            if rv is not None and isinstance(inner, (ast.Compare, ast.BoolOp, ast.UnaryOp, ast.IfExp, ast.BinOp)) \
                    and not any(isinstance(x, (ast.Call, ast.Yield, ast.Await, ast.NamedExpr, ast.Lambda)) for x in ast.walk(inner)) \
                    and all(not isinstance(x, ast.Name) or x.id == m.args.args[0].arg or x.id in ("None", "True", "False", "bool") or x.id in module_names
                            for x in ast.walk(rv)):
                out[m.name] = (m.args.args[0].arg, rv)
    return out


class _PropertyInliner(ast.NodeTransformer):
    """self.<pure property>  ==  the expression its getter returns"""

    def __init__(self, props, self_name):
        self.props, self.self_name = props, self_name
        self.changed = False

    def visit_Attribute(self, node):
        self.generic_visit(node)
        if isinstance(node.ctx, ast.Load) and isinstance(node.value, ast.Name) and node.value.id == self.self_name and node.attr in self.props:
            import copy
            pself, expr = self.props[node.attr]
            new = copy.deepcopy(expr)
            for n in ast.walk(new):
                if isinstance(n, ast.Name) and n.id == pself:
                    n.id = self.self_name
                ast.copy_location(n, node)
            self.changed = True
            return new
        return node


def _field_twins(fn, cls_node):
    """`segments = self._segments = []`: a local and a field bound together, the field stored nowhere else in the class outside
    __init__ and the local never rebound -> the local is read as the field"""
    if cls_node is None:
        return {}
    out = {}
    for s in ast.walk(fn):
        if isinstance(s, ast.Assign) and len(s.targets) == 2:
            names = [t for t in s.targets if isinstance(t, ast.Name)]
            fields = [t for t in s.targets if isinstance(t, ast.Attribute) and isinstance(t.value, ast.Name) and t.value.id == "self"]
            if len(names) == 1 and len(fields) == 1:
                nm, fld = names[0].id, fields[0]
                n_name = sum(1 for n in ast.walk(fn) if isinstance(n, ast.Name) and n.id == nm and isinstance(n.ctx, (ast.Store, ast.Del)))
                n_fld = sum(1 for n in ast.walk(fn) if isinstance(n, ast.Attribute) and n.attr == fld.attr and isinstance(n.ctx, (ast.Store, ast.Del)))
                if n_name == 1 and n_fld == 1 and not _own_calls_store(fn, cls_node, fld.attr):
                    out[nm] = fld
    return out


class _TwinInliner(ast.NodeTransformer):
    def __init__(self, twins):
        self.twins = twins
        self.changed = False

    def visit_Name(self, node):
        if isinstance(node.ctx, ast.Load) and node.id in self.twins:
            f = self.twins[node.id]
            new = ast.Attribute(value=ast.Name(id="self", ctx=ast.Load()), attr=f.attr, ctx=ast.Load())
            ast.copy_location(new, node); ast.copy_location(new.value, node)
            self.changed = True
            return new
        return node


class _AliasInliner(ast.NodeTransformer):
    def __init__(self, aliases, anyload=(), nested=False):
        self.aliases = aliases
        self.anyload = anyload
        self.nested = nested
        self.changed = False

    def visit_Name(self, node):
        if isinstance(node.ctx, ast.Load) and node.id in self.anyload:
            import copy
            new = copy.deepcopy(self.aliases[node.id])
            for n in ast.walk(new):
                ast.copy_location(n, node)
            self.changed = True
            return new
        return node

    def visit_FunctionDef(self, node):
        if self.nested:
            return self.generic_visit(node)
        return node        # nested functions are left alone

    def visit_Lambda(self, node):
        if self.nested or not ({a.arg for a in node.args.args} & set(self.aliases)):
            return self.generic_visit(node)
        return node

    def visit_Call(self, node):
        self.generic_visit(node)
        if isinstance(node.func, ast.Name) and node.func.id in self.aliases:
            import copy
            node.func = ast.copy_location(copy.deepcopy(self.aliases[node.func.id]), node.func)
            for n in ast.walk(node.func):
                ast.copy_location(n, node)
            self.changed = True
        return node


def _first_evaluated_walrus(e):
    """the assignment expression that is evaluated before anything else of e, with the path of parents to it"""
    while True:
        if isinstance(e, ast.NamedExpr):
            return e
        if isinstance(e, ast.Compare):
            e = e.left
        elif isinstance(e, ast.BoolOp):
            e = e.values[0]
        elif isinstance(e, ast.UnaryOp):
            e = e.operand
        elif isinstance(e, ast.BinOp):
            e = e.left
        elif isinstance(e, (ast.Attribute, ast.Subscript)):
            e = e.value
        elif isinstance(e, ast.Call):
            e = e.func
        else:
            return None


class _WalrusHoister(ast.NodeTransformer):
    """if (x := E) is not None: ...   ==   x = E; if x is not None: ...      (the assignment is the first thing the test evaluates;
    an elif is left alone: its test runs only when the tests before it failed)"""

    def __init__(self):
        self.changed = False

    def _hoist(self, stmts):
        out = []
        for s in stmts:
            s = self.visit(s)
            if isinstance(s, ast.If):
                w = _first_evaluated_walrus(s.test)
                if w is not None and isinstance(w.target, ast.Name):
                    asg = ast.Assign(targets=[ast.Name(id=w.target.id, ctx=ast.Store())], value=w.value)
                    ast.copy_location(asg, s); ast.copy_location(asg.targets[0], s)

                    class Repl(ast.NodeTransformer):
                        def visit_NamedExpr(self_, n):
                            if n is w:
                                return ast.copy_location(ast.Name(id=w.target.id, ctx=ast.Load()), n)
                            return self_.generic_visit(n)
                    s.test = Repl().visit(s.test)
                    out.append(asg)
                    self.changed = True
            out.append(s)
        return out

    def generic_visit(self, node):
        for f in ("body", "orelse", "finalbody"):
            v = getattr(node, f, None)
            if isinstance(v, list) and v and isinstance(v[0], ast.stmt):
                if f == "orelse" and isinstance(node, ast.If) and len(v) == 1 and isinstance(v[0], ast.If):
                    w = _first_evaluated_walrus(v[0].test)
                    if w is not None and isinstance(w.target, ast.Name):
                        # elif (x := e) ...:   ==   else: x = e; if x ...:      (the test runs exactly when the tests before it failed)
                        setattr(node, f, self._hoist(v))
                    else:
                        v[0] = self.visit_elif(v[0])
                else:
                    setattr(node, f, self._hoist(v))
        for h in getattr(node, "handlers", []) or []:
            h.body = self._hoist(h.body)
        return node

    def visit_elif(self, node):
        node.body = self._hoist(node.body)
        return self._elif_tail(node)

    def _elif_tail(self, node):
        if len(node.orelse) == 1 and isinstance(node.orelse[0], ast.If):
            w = _first_evaluated_walrus(node.orelse[0].test)
            if w is not None and isinstance(w.target, ast.Name):
                node.orelse = self._hoist(node.orelse)
            else:
                node.orelse[0] = self.visit_elif(node.orelse[0])
        else:
            node.orelse = self._hoist(node.orelse)
        return node


def _load_api_baseline():
    import json, os
    try:
        with open(os.path.join(os.path.dirname(__file__), "api_baseline.json")) as f:
            return json.load(f)
    except (OSError, ValueError):
        return None


class _ConstFolder(ast.NodeTransformer):
    """after an extension parameter was replaced by its default: tests made of constants only are decided, the branch not taken
    is dropped (`x if None is None else y` is x;  `if True: A` is A)"""

    @staticmethod
    def value(e):
        """(known, value) of an expression made of constants"""
        if isinstance(e, ast.Constant):
            return True, e.value
        if isinstance(e, ast.UnaryOp) and isinstance(e.op, ast.Not):
            k, v = _ConstFolder.value(e.operand)
            return (True, not v) if k else (False, None)
        if isinstance(e, ast.Compare) and len(e.ops) == 1:
            k1, a = _ConstFolder.value(e.left)
            k2, b = _ConstFolder.value(e.comparators[0])
            if k1 and k2:
                op = e.ops[0]
                try:
                    if isinstance(op, ast.Is):
                        return True, a is b
                    if isinstance(op, ast.IsNot):
                        return True, a is not b
                    if isinstance(op, ast.Eq):
                        return True, a == b
                    if isinstance(op, ast.NotEq):
                        return True, a != b
                except Exception:
                    pass
            return False, None
        if isinstance(e, ast.BoolOp):
            vals = [_ConstFolder.value(v) for v in e.values]
            if isinstance(e.op, ast.And):
                if any(k and not v for k, v in vals):
                    return True, False
                if all(k for k, _v in vals):
                    return True, all(v for _k, v in vals)
            else:
                if any(k and v for k, v in vals):
                    return True, True
                if all(k for k, _v in vals):
                    return True, any(v for _k, v in vals)
        return False, None

    def visit_IfExp(self, node):
        self.generic_visit(node)
        k, v = self.value(node.test)
        if k:
            return node.body if v else node.orelse
        return node

    def visit_BoolOp(self, node):
        self.generic_visit(node)
        # `True and x` is x;  `False or x` is x  (a constant operand that does not decide is dropped)
        keep = []
        for v in node.values:
            k, val = self.value(v)
            if k and ((isinstance(node.op, ast.And) and val) or (isinstance(node.op, ast.Or) and not val)):
                continue
            keep.append(v)
            if k:
                break           # decides: nothing after it is evaluated
        if not keep:
            return ast.copy_location(ast.Constant(value=isinstance(node.op, ast.And)), node)
        if len(keep) == 1:
            return keep[0]
        node.values = keep
        return node

    def _block(self, stmts):
        out = []
        for s in stmts:
            r = self.visit(s)
            if isinstance(r, list):
                out.extend(r)
            elif r is not None:
                out.append(r)
        return out or [ast.Pass()]

    def visit_If(self, node):
        node.test = self.visit(node.test)
        node.body = self._block(node.body)
        node.orelse = self._block(node.orelse) if node.orelse else []
        k, v = self.value(node.test)
        if k:
            taken = node.body if v else node.orelse
            return [ast.copy_location(x, node) if isinstance(x, ast.Pass) else x for x in taken] or None
        return node

    def generic_visit(self, node):
        for f in ("body", "orelse", "finalbody"):
            v = getattr(node, f, None)
            if isinstance(v, list) and v and isinstance(v[0], ast.stmt) and not isinstance(node, ast.If):
                setattr(node, f, self._block(v) if (f == "body" or v) else v)
        for h in getattr(node, "handlers", []) or []:
            h.body = self._block(h.body)
        for field, old in ast.iter_fields(node):
            if field in ("body", "orelse", "finalbody", "handlers") and isinstance(old, list) and old and isinstance(old[0], (ast.stmt, ast.ExceptHandler)):
                continue
            if isinstance(old, list):
                new = []
                for x in old:
                    if isinstance(x, ast.AST):
                        x = self.visit(x)
                        if x is None:
                            continue
                        if isinstance(x, list):
                            new.extend(x)
                            continue
                    new.append(x)
                old[:] = new
            elif isinstance(old, ast.AST):
                r = self.visit(old)
                if r is not None and not isinstance(r, list):
                    setattr(node, field, r)
        return node


def _specialise_extension_params(fn, qual, baseline, calls=None, module_consts=(), passes=None, n_defs=None):
    n_defs = n_defs or {}
    """parameters the baseline interface does not have, with a constant default and never rebound in the body, are read as that
    default: the properties are about the existing interface, an opt-in extension is at its default for every existing call"""
    base = baseline.get(qual)
    if base is None:
        return False
    a = fn.args
    if not set(base) <= {x.arg for x in a.posonlyargs + a.args + a.kwonlyargs} | ({a.vararg.arg} if a.vararg else set()) | ({a.kwarg.arg} if a.kwarg else set()):
        return False            # a parameter of the baseline is gone (renamed): this is not the old interface plus extensions
    pos = a.posonlyargs + a.args
    defaults = dict(zip([x.arg for x in pos[len(pos) - len(a.defaults):]], a.defaults))
    defaults.update({x.arg: d for x, d in zip(a.kwonlyargs, a.kw_defaults) if d is not None})
    stored = {n.id for n in ast.walk(fn) if isinstance(n, ast.Name) and isinstance(n.ctx, (ast.Store, ast.Del))}
    names_now = [x.arg for x in pos]
    cname = fn.name if fn.name != "__init__" else qual.split(".")[-2]

    def passed_by_existing_code(p_):
        """does a function of the baseline interface call this one with an explicit argument for p_?  Then the extension is in use
        on an existing path and is not read as its default"""
        i_ = names_now.index(p_) - (1 if names_now and names_now[0] in ("self", "cls") else 0) if p_ in names_now else None
        unique = n_defs.get(cname, 0) <= 1
        for c, q_, caller in (passes or {}).get(cname, []):
            if q_ not in baseline or q_ == qual:
                continue
            given = [k.value for k in c.keywords if k.arg == p_]
            if not given and unique and i_ is not None and len(c.args) > i_:
                given = [c.args[i_]]        # (a positional argument only counts when no other function of that name exists)
            for g_ in given:
                # handing on one's own extension parameter (itself at its default for every existing call) is not a use
                ca = caller.args
                cpos = ca.posonlyargs + ca.args
                cdef = dict(zip([x.arg for x in cpos[len(cpos) - len(ca.defaults):]], ca.defaults))
                cdef.update({x.arg: d_ for x, d_ in zip(ca.kwonlyargs, ca.kw_defaults) if d_ is not None})
                own_ext = isinstance(g_, ast.Name) and g_.id not in baseline.get(q_, []) and g_.id in cdef and isinstance(cdef[g_.id], ast.Constant) \
                    and p_ in defaults_all and isinstance(defaults_all[p_], ast.Constant) and cdef[g_.id].value == defaults_all[p_].value
                same_default = isinstance(g_, ast.Constant) and p_ in defaults_all and isinstance(defaults_all[p_], ast.Constant) \
                    and g_.value == defaults_all[p_].value and type(g_.value) is type(defaults_all[p_].value)
                if not own_ext and not same_default:
                    return True
        return False
    defaults_all = dict(defaults)
    defaults = {p: d for p, d in defaults.items() if p in base or not passed_by_existing_code(p)}
    ext = {p: d for p, d in defaults.items() if p not in base and p not in stored and isinstance(d, ast.Constant)}
    # `if p is None: p = <computed as before>` for an extension p=None: the computation is unconditional for every existing call
    changed = False
    for p_, d in defaults.items():
        if p_ in base or p_ not in stored or not (isinstance(d, ast.Constant) and d.value is None):
            continue
        n_store = sum(1 for n in ast.walk(fn) if isinstance(n, ast.Name) and n.id == p_ and isinstance(n.ctx, (ast.Store, ast.Del)))

        def fill_in(stmts):
            for i, st in enumerate(stmts):
                if isinstance(st, ast.If) and not st.orelse and isinstance(st.test, ast.Compare) and len(st.test.ops) == 1 \
                        and isinstance(st.test.ops[0], ast.Is) and isinstance(st.test.left, ast.Name) and st.test.left.id == p_ \
                        and isinstance(st.test.comparators[0], ast.Constant) and st.test.comparators[0].value is None \
                        and len(st.body) == 1 and isinstance(st.body[0], ast.Assign) and len(st.body[0].targets) == 1 \
                        and isinstance(st.body[0].targets[0], ast.Name) and st.body[0].targets[0].id == p_:
                    earlier = any(isinstance(n, ast.Name) and n.id == p_ for s0 in stmts[:i] for n in ast.walk(s0))
                    if not earlier:
                        stmts[i] = st.body[0]
                        return True
            return False
        if n_store == 1 and fill_in(fn.body):
            changed = True
    # an extension parameter without a default for which every call in the package passes the same constant (a private helper
    # generalised with a parameter that all existing callers pass the old constant for)
    if calls is not None and "." not in qual.split(".", 1)[1]:
        fname = fn.name
        sites = calls.get(fname, [])
        params_now = [x.arg for x in pos]
        for p_ in params_now:
            if p_ in base or p_ in defaults or p_ in stored or p_ in ext:
                continue
            i_ = params_now.index(p_)
            given = []
            for c in sites:
                a_ = c.args[i_] if len(c.args) > i_ else next((k.value for k in c.keywords if k.arg == p_), None)
                given.append(a_)
            if given and all(isinstance(a_, (ast.Constant, ast.Name)) for a_ in given) and len({ast.dump(a_) for a_ in given}) == 1 \
                    and (isinstance(given[0], ast.Constant) or given[0].id in module_consts):
                ext[p_] = given[0] if isinstance(given[0], ast.Constant) else given[0]
    if not ext:
        return changed

    class Sub(ast.NodeTransformer):
        def visit_Name(self, n):
            if isinstance(n.ctx, ast.Load) and n.id in ext:
                e_ = ext[n.id]
                if isinstance(e_, ast.Constant):
                    return ast.copy_location(ast.Constant(value=e_.value), n)
                return ast.copy_location(ast.Name(id=e_.id, ctx=ast.Load()), n)
            return n

        def visit_FunctionDef(self, n):
            return n

        visit_Lambda = visit_FunctionDef
    fn.body = [Sub().visit(s) for s in fn.body]
    folded = _ConstFolder()._block(fn.body)
    fn.body = folded
    # a call inside the package that passes the extension explicitly keeps passing it: callees' parameters are specialised where
    # they are declared, so the argument is simply not read there
    return True


def desugar(trees):
    """trees: module name -> ast.Module (rewritten in place); returns the set of module names that were touched"""
    env = _Env(trees)
    baseline = _load_api_baseline()
    calls_by_name = {}
    n_defs = {}
    for t_ in trees.values():
        for n_ in ast.walk(t_):
            if isinstance(n_, ast.FunctionDef):
                n_defs[n_.name] = n_defs.get(n_.name, 0) + 1
    passes = {}          # callee name -> [(call, qualified name of the function the call is in)]
    for m_, t_ in trees.items():
        for c_ in ast.walk(t_):
            if isinstance(c_, ast.Call) and isinstance(c_.func, ast.Name):
                calls_by_name.setdefault(c_.func.id, []).append(c_)

        def scan(fnode, q_):
            for c_ in ast.walk(fnode):
                if isinstance(c_, ast.Call) and isinstance(c_.func, (ast.Name, ast.Attribute)):
                    passes.setdefault(c_.func.id if isinstance(c_.func, ast.Name) else c_.func.attr, []).append((c_, q_, fnode))
        for n_ in t_.body:
            if isinstance(n_, ast.FunctionDef):
                scan(n_, "%s.%s" % (m_, n_.name))
            elif isinstance(n_, ast.ClassDef):
                for f_ in n_.body:
                    if isinstance(f_, ast.FunctionDef):
                        scan(f_, "%s.%s.%s" % (m_, n_.name, f_.name))
    all_attrs = {n.attr for t in trees.values() for n in ast.walk(t) if isinstance(n, ast.Attribute)}
    env.final = set() if "*" in env.stored_attrs else {a for a in all_attrs - env.stored_attrs if not any(a.startswith(p) for p in env.stored_prefixes)}
    touched = set()
    for mod, tree in trees.items():
        def do_function(fn, cls_attrs, cls_node=None):
            if baseline is not None:
                qual = "%s.%s.%s" % (mod, cls_node.name, fn.name) if cls_node is not None else "%s.%s" % (mod, fn.name)
                if _specialise_extension_params(fn, qual, baseline, calls_by_name, set(env.assigns.get(mod, {})), passes, n_defs):
                    touched.add(mod)
            wh = _WalrusHoister()
            wh.generic_visit(fn)
            if wh.changed:
                touched.add(mod)
            er = _ExitStackReader(env.imports.get(mod, {}))
            fn.body = [er.visit(x) for x in fn.body]
            if er.changed:
                touched.add(mod)
            props = _pure_properties(cls_node, set(env.assigns.get(mod, {})) | set(env.imports.get(mod, {})))
            if props and fn.args.args and not any(isinstance(d, ast.Name) and d.id in ("staticmethod", "classmethod") for d in fn.decorator_list) \
                    and fn.name not in props:
                pi = _PropertyInliner(props, fn.args.args[0].arg)
                fn.body = [pi.visit(x) for x in fn.body]
                if pi.changed:
                    touched.add(mod)
            twins = _field_twins(fn, cls_node)
            if twins:
                tw = _TwinInliner(twins)
                fn.body = [tw.visit(x) for x in fn.body]
                if tw.changed:
                    touched.add(mod)
            local = _single_assignments(fn)
            rw = _Rewriter(env, mod, cls_attrs, local)
            fn.body = [rw.visit(s) for s in fn.body]
            if rw.changed:
                touched.add(mod)
            local = _single_assignments(fn)
            ext = {k: v for k, v in env.ext_aliases.get(mod, {}).items()}
            if ext:
                shadow = {a.arg for a in fn.args.args + fn.args.kwonlyargs + fn.args.posonlyargs} | {
                    n.id for n in ast.walk(fn) if isinstance(n, ast.Name) and isinstance(n.ctx, (ast.Store, ast.Del))}
                ext = {k: v for k, v in ext.items() if k not in shadow}
                if ext:
                    il = _AliasInliner(ext, set(ext), nested=True)
                    fn.body = [il.visit(x) for x in fn.body]
                    if il.changed:
                        touched.add(mod)
            anyload = set()
            aliases = _alias_bound_methods(fn, local, env.imports.get(mod, {}), anyload,
                                            set(env.funcs.get(mod, {})) | set(env.imports.get(mod, {})), env.final, cls_node)
            if aliases:
                il = _AliasInliner(aliases, anyload)
                fn.body = [il.visit(s) for s in fn.body]
                if il.changed:
                    touched.add(mod)
        for node in tree.body:
            if isinstance(node, ast.FunctionDef):
                do_function(node, {})
            elif isinstance(node, ast.ClassDef):
                attrs = {}
                for sub in node.body:
                    if isinstance(sub, ast.Assign):
                        for t in sub.targets:
                            if isinstance(t, ast.Name):
                                attrs[t.id] = sub.value
                for sub in node.body:
                    if isinstance(sub, ast.FunctionDef):
                        do_function(sub, attrs, node)
        # module-level constants that read the size of a prepared struct
        rw = _Rewriter(env, mod, {}, {})
        for node in tree.body:
            if isinstance(node, ast.Assign) and not (isinstance(node.value, ast.Call) and _is_struct_ctor(node.value, env.imports.get(mod, {}))):
                node.value = rw.visit(node.value)
        if rw.changed:
            touched.add(mod)
        if mod in touched:
            ast.fix_missing_locations(tree)
    return touched
