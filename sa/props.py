"""Property -> rule mapping and the per-property runner."""
import importlib
import os
import time

from . import report
from .core import Program, AnalysisError
from .registry import RULES, Ctx

# rule modules register themselves on import
for _m in ("rules_resource", "rules_layout", "rules_cursor", "rules_owner", "rules_dtype",
           "rules_dispatch", "rules_flow", "rules_values", "rules_paths", "rules_thermo",
           "rules_daqmx", "rules_writer", "rules_index", "rules_trunc"):
    try:
        importlib.import_module("." + _m, __package__)
    except ModuleNotFoundError as e:  # module not built yet
        if _m not in str(e):
            raise

from .propspec import PROPERTIES  # noqa: E402


def run_property(pid, tier, seed, t0=None):
    t0 = t0 or time.time()
    spec = PROPERTIES[pid]
    prog = Program()
    ctx = Ctx(prog, tier)
    known = report.load_known_findings()
    results = []
    missing = [r for r in spec["rules"] if r not in RULES]
    if missing:
        raise AnalysisError("rules not registered: %s" % ", ".join(missing))
    for rname in spec["rules"]:
        results.append(ctx.run(rname))
    print("property %s tier=%s files=%d classes=%d functions=%d" % (
        pid, tier, len(prog.modules), len(prog.classes), len(prog.functions)))
    for r in results:
        print("  " + r.summary())
        for u in r.undecideds:
            print("      undecided: %s @ %s: %s" % (u.key, u.where, u.detail))
    n_viol = 0
    known_printed = []
    for r in results:
        for inst in r.violations:
            e = report.known_lookup(known, pid, r.rule, inst.key)
            if e is not None:
                line = "KNOWN-FINDING: property=%s %s :: %s @ %s - %s" % (pid, r.rule, inst.key, inst.where, e.get("what", inst.detail))
                print(line)
                known_printed.append(line)
                continue
            n_viol += 1
            path = report.write_violation(pid, n_viol, r, inst)
            print("  violation: %s :: %s @ %s: %s" % (r.rule, inst.key, inst.where, inst.detail))
            for step in (inst.path or []):
                print("      path: %s" % step)
            print("VIOLATION property=%s replay=%s" % (pid, path))
    validation = None
    if tier == "thorough" and not os.environ.get("SA_NO_SELFVALIDATION"):
        validation = _checker_validation(pid)
        print("  checker validation on scratch copies of the current tree: %(breaking_fired)d/%(breaking)d breaking variants reported, "
              "%(benign_silent)d/%(benign)d benign variants silent, %(skipped)d not applicable to this tree" % validation)
    wall = time.time() - t0
    extra = {
        "analysed_files": [{"file": m.relpath, "sha256": m.sha256} for m in sorted(prog.modules.values(), key=lambda m: m.name)],
        "not_decided": spec.get("not_decided", []),
        "call_resolution": ctx.call_resolution_stats(),
    }
    if validation is not None:
        extra["checker_validation"] = validation
    report.write_evidence(pid, tier, seed, results, wall, spec["explanation"], spec["assumptions"],
                          extra=extra, n_violations=n_viol, known_printed=known_printed)
    print("property %s: %s (%d rule instances, %d unlisted violation(s), %d known finding(s), %.2fs)" % (
        pid, "HOLDS on everything analysed" if n_viol == 0 else "VIOLATED",
        sum(len(r.instances) for r in results), n_viol, len(known_printed), wall))
    return 1 if n_viol else 0


def _checker_validation(pid):
    """Thorough tier only, informational (never changes the verdict): apply this property's variant corpus and the
    seeded changes to scratch copies of the CURRENT tree and record whether the quick check reports them."""
    from concurrent.futures import ThreadPoolExecutor
    from . import selftest
    from .selftest_variants import VARIANTS
    vs = [v for v in VARIANTS if pid in (v.get("props") or [v.get("prop")])]
    # seeded changes: the property-breaking ones filed under this property; every behaviour-preserving refactoring, run against
    # THIS property's check only (the whole corpus against all properties is `./check --selftest`)
    seeded = selftest.load_seeded()
    is_benign = lambda v: v.get("expect") is None or v.get("kind") == "benign"
    own = lambda v: v["id"].split("/")[-1].startswith(pid)
    for v in seeded:
        if pid not in v["props"]:
            continue
        if is_benign(v):
            if own(v):
                vs.append(dict(v, props=[pid]))     # behaviour-preserving changes written around this property
        else:
            vs.append(v)
    # ... plus a fixed sample of the behaviour-preserving changes written around the other properties (every 6th, offset by the
    # property number).  The whole corpus against every property is `./check --selftest` (tools/precommit.sh, about half an hour).
    off = int(pid[1:]) % 6
    others = sorted([v for v in seeded if is_benign(v) and not own(v) and pid in v["props"]], key=lambda v: v["id"])
    vs += [dict(v, props=[pid]) for i, v in enumerate(others) if i % 6 == off]
    os.environ["SA_NO_SELFVALIDATION"] = "1"
    with ThreadPoolExecutor(max_workers=16) as ex:
        res = list(ex.map(selftest.run_variant, vs))
    out = {"breaking": 0, "breaking_fired": 0, "benign": 0, "benign_silent": 0, "skipped": 0, "not_as_expected": []}
    for r in res:
        v = r["v"]
        if r["status"] in ("skipped", "broken-variant"):
            out["skipped"] += 1
            continue
        benign = v.get("expect") is None or v.get("kind") == "benign"
        codes = r.get("codes", [])
        if benign:
            out["benign"] += 1
            if all(c == 0 for c in codes):
                out["benign_silent"] += 1
            else:
                out["not_as_expected"].append(v["id"])
        else:
            out["breaking"] += 1
            if any(c == 1 for c in codes):
                out["breaking_fired"] += 1
            elif not v.get("known_miss"):
                out["not_as_expected"].append(v["id"])
    return out
