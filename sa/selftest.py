"""Self-validation of the checkers (NOT part of any property check).

Each variant is an edit applied to a scratch copy of the *current* /repo/nptdms
(under a fresh temporary directory, removed afterwards).  Breaking variants must
make the named property's check exit 1 and name the expected rule; benign
variants (behaviour-preserving refactorings) must leave it silent (exit 0).
Seeded changes written by independent sub-agents (/verif/seeded/<id>/patch.diff)
are run the same way.

usage: ./check --selftest [--only SUBSTR] [--seeded-only] [--jobs N] [-v]
"""
import ast
import json
import os
import shutil
import subprocess
import sys
import tempfile
from concurrent.futures import ThreadPoolExecutor

VERIF = os.path.dirname(os.path.dirname(os.path.abspath(__file__)))
REPO = os.environ.get("SA_REPO", "/repo")


def _copy_pkg(dst):
    src = os.path.join(REPO, "nptdms")
    for dirpath, dirnames, filenames in os.walk(src):
        rel = os.path.relpath(dirpath, src)
        if rel.split(os.sep)[0] in ("test", "__pycache__"):
            dirnames[:] = []
            continue
        dirnames[:] = [d for d in dirnames if d not in ("test", "__pycache__")]
        os.makedirs(os.path.join(dst, "nptdms", rel), exist_ok=True)
        for fn in filenames:
            if fn.endswith(".py"):
                shutil.copy2(os.path.join(dirpath, fn), os.path.join(dst, "nptdms", rel, fn))


def _run_check(scratch, prop, tier="quick"):
    env = dict(os.environ)
    env["SA_REPO"] = scratch
    env["SA_EVIDENCE_DIR"] = os.path.join(scratch, "_evidence")
    p = subprocess.run(["/venv/bin/python", "-m", "sa", prop, "--tier", tier], cwd=VERIF, env=env,
                       capture_output=True, text=True, timeout=600)
    return p.returncode, p.stdout + p.stderr


def run_variant(v):
    scratch = tempfile.mkdtemp(prefix="sa_selftest_")
    try:
        _copy_pkg(scratch)
        if "patch" in v:
            p = subprocess.run(["patch", "-p1", "-s", "-d", scratch, "-i", v["patch"]], capture_output=True, text=True)
            if p.returncode != 0:
                return dict(v=v, status="skipped", why="patch does not apply: " + (p.stdout + p.stderr)[:200])
        else:
            for (fn, old, new) in v["edits"]:
                path = os.path.join(scratch, "nptdms", fn)
                src = open(path).read()
                if src.count(old) != 1:
                    return dict(v=v, status="skipped", why="anchor text found %d times in %s" % (src.count(old), fn))
                src = src.replace(old, new)
                try:
                    ast.parse(src)
                except SyntaxError as e:
                    return dict(v=v, status="broken-variant", why="does not parse: %s" % e)
                open(path, "w").write(src)
        out = {}
        props = v["props"] if "props" in v else [v["prop"]]
        fired = []
        codes = []
        for prop in props:
            code, text = _run_check(scratch, prop, v.get("tier", "quick"))
            codes.append(code)
            out[prop] = text
            for line in text.splitlines():
                if line.strip().startswith("violation:"):
                    fired.append(prop + " " + line.strip()[len("violation:"):].strip())
        expect = v.get("expect")
        if expect is None:
            ok = all(c == 0 for c in codes)
            status = "ok" if ok else "FALSE-ALARM"
        else:
            exp = expect if isinstance(expect, (list, tuple)) else [expect]
            hit = [f for f in fired if any((" " + e + " ::") in (" " + f) for e in exp)]
            if v.get("key"):
                hit = [f for f in hit if v["key"] in f]
            if hit and any(c == 1 for c in codes):
                status = "ok"
            elif any(c == 1 for c in codes):
                status = "fired-other-rule"
            elif any(c == 2 for c in codes):
                status = "analysis-error"
            else:
                status = "MISSED"
        return dict(v=v, status=status, fired=fired, codes=codes, out=out)
    finally:
        shutil.rmtree(scratch, ignore_errors=True)


def load_seeded():
    out = []
    d = os.path.join(VERIF, "seeded")
    if not os.path.isdir(d):
        return out
    for name in sorted(os.listdir(d)):
        meta = os.path.join(d, name, "meta.json")
        patch = os.path.join(d, name, "patch.diff")
        if os.path.exists(meta) and os.path.exists(patch):
            m = json.load(open(meta))
            benign = m.get("kind") == "benign"
            if benign and not m.get("check_props"):
                from .propspec import PROPERTIES
                m["check_props"] = sorted(PROPERTIES)      # a harmless edit must leave EVERY check silent
            out.append(dict(id="seeded/" + name, props=m.get("check_props") or [m["property"]], patch=patch,
                            expect=None if benign else (m.get("expect_rules") or ["*"]), seeded=True, kind=m.get("kind", "breaks property"),
                            note=m.get("summary", ""), known_miss=m.get("known_miss")))
    return out


def main(argv):
    from .selftest_variants import VARIANTS
    only = None
    jobs = 16
    verbose = "-v" in argv
    if "--only" in argv:
        only = argv[argv.index("--only") + 1]
    if "--jobs" in argv:
        jobs = int(argv[argv.index("--jobs") + 1])
    variants = [] if "--seeded-only" in argv else list(VARIANTS)
    variants += load_seeded()
    if only:
        variants = [v for v in variants if only in v["id"]]
    with ThreadPoolExecutor(max_workers=jobs) as ex:
        results = list(ex.map(run_variant, variants))
    bad = 0
    for r in results:
        v = r["v"]
        st = r["status"]
        if v.get("seeded") and v.get("expect") == ["*"] and r["status"] not in ("skipped", "broken-variant"):
            # seeded change without a registered expectation: detected iff any check exits 1
            st = "ok" if any(c == 1 for c in r.get("codes", [])) else ("analysis-error" if any(c == 2 for c in r.get("codes", [])) else "MISSED")
            r["status"] = st
        tag = "expected-miss" if (st == "MISSED" and v.get("known_miss")) else st
        print("%-16s %-44s props=%s expect=%s %s" % (tag, v["id"], ",".join(v.get("props") or [v.get("prop")]),
                                                     v.get("expect"), r.get("why", "")))
        if verbose or st not in ("ok",):
            for f in r.get("fired", [])[:6]:
                print("      fired: " + f[:220])
            if st == "analysis-error":
                for prop, text in r.get("out", {}).items():
                    for line in text.splitlines():
                        if "ANALYSIS-ERROR" in line or "Error" in line:
                            print("      " + line[:220])
        if st not in ("ok", "skipped") and not (st == "MISSED" and v.get("known_miss")):
            bad += 1
    n = len(results)
    print("selftest: %d variants, %d as expected, %d skipped, %d not as expected" % (
        n, sum(1 for r in results if r["status"] == "ok"), sum(1 for r in results if r["status"] == "skipped"), bad))
    return 0 if bad == 0 else 1
