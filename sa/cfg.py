"""Statement-level control-flow graphs with exceptional edges.

Hand-built for the statement kinds the repository uses.  ``finally`` bodies and
``with`` exits are cloned per continuation (normal / exception / return /
break / continue), so path queries are exact with respect to which cleanup
code runs on which exit.
"""
import ast
from collections import deque

from .core import walk_shallow, call_name, unparse, AnalysisError

# Calls assumed not to raise (reviewed; printed in the evidence of rules that use the default policy)
NO_RAISE_CALLS = {
    "isinstance", "hasattr", "len", "str", "bool", "repr", "id", "type", "range", "enumerate", "zip",
    "log.debug", "log.info", "log.warning", "log.error", "log.isEnabledFor",
    "os.path.isfile", "os.path.exists",
}


# names of argument-less methods of the package all of whose definitions only return a test over fields (filled in per program by
# pure_predicates()): a call of one cannot raise
PURE_PREDICATES = set()


def pure_predicates(prog):
    """method names m such that every method m of the package is `return <comparisons / and / or / not over self's attributes>`"""
    by_name = {}
    for f in prog.functions.values():
        if f.cls is None:
            continue
        body = [x for x in f.node.body if not (isinstance(x, ast.Expr) and isinstance(x.value, ast.Constant))]
        plain_field = len(f.params) == 1 and len(body) == 1 and isinstance(body[0], ast.Return) and isinstance(body[0].value, ast.Attribute) \
            and isinstance(body[0].value.value, ast.Name) and body[0].value.value.id == f.params[0]       # `return self._flag`: cannot raise either
        pure = plain_field or len(f.params) == 1 and len(body) == 1 and isinstance(body[0], ast.Return) and isinstance(body[0].value, (ast.Compare, ast.BoolOp, ast.UnaryOp)) \
            and not any(isinstance(x, (ast.Call, ast.Subscript, ast.BinOp, ast.Yield, ast.Await)) for x in ast.walk(body[0].value)) \
            and all(not isinstance(x, ast.Name) or x.id in (f.params[0], "None", "True", "False") for x in ast.walk(body[0].value))
        by_name.setdefault(f.name, []).append(pure)
    return {n for n, ps in by_name.items() if all(ps)}


class Node:
    __slots__ = ("id", "kind", "ast", "succ", "pred", "label", "clone")

    def __init__(self, nid, kind, astnode=None, label="", clone=""):
        self.id = nid
        self.kind = kind      # entry exit raise stmt test for except return raisestmt with_enter with_exit dispatch join
        self.ast = astnode
        self.succ = []        # list of (Node, edge_kind)
        self.pred = []
        self.label = label
        self.clone = clone    # which continuation clone of a finally/with-exit this node belongs to

    @property
    def lineno(self):
        return getattr(self.ast, "lineno", 0)

    def text(self):
        if self.ast is None:
            return self.kind
        if self.kind in ("test",):
            return "if/while " + unparse(self.ast)
        if self.kind == "for":
            return "for %s in %s" % (unparse(self.ast.target), unparse(self.ast.iter))
        if self.kind == "except":
            return "except " + (unparse(self.ast.type) if self.ast.type is not None else "")
        if self.kind in ("with_enter", "with_exit"):
            return "%s %s" % (self.kind, unparse(self.ast.context_expr))
        t = unparse(self.ast)
        return t.split("\n")[0][:100]

    def __repr__(self):
        return "<N%d %s L%d %s>" % (self.id, self.kind, self.lineno, self.text()[:40])


def default_may_raise(node):
    """Default exception policy: a statement/expression may raise when it
    contains a call outside the no-raise allowlist, a subscript load, a raise or an assert."""
    a = node.ast
    if a is None:
        return False
    if node.kind in ("raisestmt",):
        return True
    if node.kind == "with_exit":
        return False
    if isinstance(a, (ast.Assert, ast.Raise)):
        return True
    target = a
    if node.kind == "for":
        target = a.iter
        # next() on the iterator may raise too when the iterator is a generator call
    elif node.kind in ("with_enter",):
        target = a.context_expr
    elif node.kind == "except":
        return False
    for n in walk_shallow(target):
        if isinstance(n, ast.Call):
            if call_name(n) not in NO_RAISE_CALLS and not (
                    isinstance(n.func, ast.Attribute) and n.func.attr in PURE_PREDICATES and not n.args and not n.keywords):
                return True
        elif isinstance(n, ast.Subscript) and isinstance(getattr(n, "ctx", None), ast.Load):
            return True
        elif isinstance(n, (ast.Yield, ast.YieldFrom)):
            pass
    return False


class _Ctx:
    __slots__ = ("brk", "cont", "exc", "ret")

    def __init__(self, brk, cont, exc, ret):
        self.brk, self.cont, self.exc, self.ret = brk, cont, exc, ret

    def replace(self, **kw):
        c = _Ctx(self.brk, self.cont, self.exc, self.ret)
        for k, v in kw.items():
            setattr(c, k, v)
        return c


class CFG:
    def __init__(self, func_node, may_raise=default_may_raise, catch_all_names=("Exception", "BaseException")):
        self.func = func_node
        self.nodes = []
        self.may_raise = may_raise
        self.catch_all_names = catch_all_names
        self.entry = self._new("entry")
        self.exit = self._new("exit")          # normal return / fall off the end
        self.raise_exit = self._new("raise")   # exception leaves the function
        ctx = _Ctx(None, None, self.raise_exit, self.exit)
        first = self._block(func_node.body, self.exit, ctx, "")
        self._edge(self.entry, first, "next")
        self._last_parents = {}
        self.live = self.reach([self.entry])

    # -- construction helpers ---------------------------------------------
    def _new(self, kind, astnode=None, label="", clone=""):
        n = Node(len(self.nodes), kind, astnode, label, clone)
        self.nodes.append(n)
        return n

    def _edge(self, a, b, kind):
        if b is None:
            raise AnalysisError("CFG: dangling edge from %r (%s)" % (a, kind))
        a.succ.append((b, kind))
        b.pred.append((a, kind))

    def _exc_edge(self, n, ctx):
        if self.may_raise(n):
            self._edge(n, ctx.exc, "exc")

    def _block(self, stmts, nxt, ctx, clone):
        for s in reversed(stmts):
            nxt = self._stmt(s, nxt, ctx, clone)
        return nxt

    def _cleanup_factory(self, build_clone, outer_ctx, nxt):
        """Returns f(kind) giving the entry of a clone of a cleanup region
        (finally body / with exit) that continues to the outer target for `kind`."""
        memo = {}

        def get(kind):
            if kind in memo:
                return memo[kind]
            target = {"normal": nxt, "exc": outer_ctx.exc, "ret": outer_ctx.ret,
                      "brk": outer_ctx.brk, "cont": outer_ctx.cont}[kind]
            if target is None:
                memo[kind] = None
                return None
            memo[kind] = build_clone(kind, target)
            return memo[kind]
        return get

    def _stmt(self, s, nxt, ctx, clone):
        if isinstance(s, ast.If):
            t = self._new("test", s.test, clone=clone)
            body = self._block(s.body, nxt, ctx, clone)
            orelse = self._block(s.orelse, nxt, ctx, clone) if s.orelse else nxt
            self._edge(t, body, "true")
            self._edge(t, orelse, "false")
            self._exc_edge(t, ctx)
            return t
        if isinstance(s, ast.While):
            t = self._new("test", s.test, label="while", clone=clone)
            after = self._block(s.orelse, nxt, ctx, clone) if s.orelse else nxt
            body = self._block(s.body, t, ctx.replace(brk=nxt, cont=t), clone)
            self._edge(t, body, "true")
            const_true = isinstance(s.test, ast.Constant) and bool(s.test.value) is True
            if not const_true:
                self._edge(t, after, "false")
            self._exc_edge(t, ctx)
            return t
        if isinstance(s, (ast.For, ast.AsyncFor)):
            h = self._new("for", s, clone=clone)
            after = self._block(s.orelse, nxt, ctx, clone) if s.orelse else nxt
            body = self._block(s.body, h, ctx.replace(brk=nxt, cont=h), clone)
            self._edge(h, body, "loop")
            self._edge(h, after, "done")
            self._exc_edge(h, ctx)
            return h
        if isinstance(s, ast.Try):
            return self._try(s, nxt, ctx, clone)
        if isinstance(s, (ast.With, ast.AsyncWith)):
            return self._with(s, list(s.items), nxt, ctx, clone)
        if isinstance(s, ast.Return):
            n = self._new("return", s, clone=clone)
            self._edge(n, ctx.ret, "return")
            self._exc_edge(n, ctx)
            return n
        if isinstance(s, ast.Raise):
            n = self._new("raisestmt", s, clone=clone)
            self._edge(n, ctx.exc, "exc")
            return n
        if isinstance(s, ast.Break):
            n = self._new("stmt", s, clone=clone)
            self._edge(n, ctx.brk, "break")
            return n
        if isinstance(s, ast.Continue):
            n = self._new("stmt", s, clone=clone)
            self._edge(n, ctx.cont, "continue")
            return n
        # simple statement (Assign, AugAssign, Expr, Assert, Pass, Delete, nested defs, ...)
        n = self._new("stmt", s, clone=clone)
        self._edge(n, nxt, "next")
        self._exc_edge(n, ctx)
        return n

    def _try(self, s, nxt, ctx, clone):
        if s.finalbody:
            def build_clone(kind, target):
                # exceptions inside the finally body propagate outwards
                return self._block(s.finalbody, target, ctx, (clone + "/" if clone else "") + "finally:" + kind)
            fin = self._cleanup_factory(build_clone, ctx, nxt)
            inner = _Ctx(fin("brk") if ctx.brk is not None else None,
                         fin("cont") if ctx.cont is not None else None,
                         fin("exc"), fin("ret"))
            after = fin("normal")
        else:
            inner = ctx
            after = nxt
        # handlers
        if s.handlers:
            dispatch = self._new("dispatch", s, clone=clone)
            catch_all = False
            for h in s.handlers:
                hn = self._new("except", h, clone=clone)
                body = self._block(h.body, after, inner, clone)
                self._edge(hn, body, "next")
                self._edge(dispatch, hn, "caught")
                if h.type is None:
                    catch_all = True
                else:
                    names = [h.type] if not isinstance(h.type, ast.Tuple) else h.type.elts
                    for t in names:
                        if isinstance(t, ast.Name) and t.id in self.catch_all_names:
                            catch_all = True
            if not catch_all:
                self._edge(dispatch, inner.exc, "uncaught")
            body_ctx = inner.replace(exc=dispatch)
        else:
            body_ctx = inner
        orelse = self._block(s.orelse, after, inner, clone) if s.orelse else after
        return self._block(s.body, orelse, body_ctx, clone)

    def _with(self, s, items, nxt, ctx, clone):
        item = items[0]

        def build_clone(kind, target):
            n = self._new("with_exit", item, clone=(clone + "/" if clone else "") + "with:" + kind)
            self._edge(n, target, "next" if kind == "normal" else kind)
            return n
        fin = self._cleanup_factory(build_clone, ctx, nxt)
        inner = _Ctx(fin("brk") if ctx.brk is not None else None,
                     fin("cont") if ctx.cont is not None else None,
                     fin("exc"), fin("ret"))
        if len(items) > 1:
            body = self._with(s, items[1:], fin("normal"), inner, clone)
        else:
            body = self._block(s.body, fin("normal"), inner, clone)
        enter = self._new("with_enter", item, clone=clone)
        self._edge(enter, body, "next")
        self._exc_edge(enter, ctx)
        return enter

    # -- queries ------------------------------------------------------------
    def where(self, pred):
        """Live (reachable from entry) nodes satisfying pred."""
        return [n for n in self.nodes if n in self.live and pred(n)]

    def stmt_nodes(self, astnode):
        """All CFG nodes (clones included) carrying this AST node."""
        return [n for n in self.nodes if n.ast is astnode and n in self.live]

    def reach(self, starts, avoid=None, assume=None, follow_exc=True, enter_start=True):
        """Nodes reachable from `starts` (their successors) without entering a
        node for which avoid(node) holds.  assume(test_node) -> True/False/None
        prunes branches of tests whose outcome is known."""
        seen = {}
        dq = deque()
        for s in starts:
            if s.id not in seen:
                seen[s.id] = None
                dq.append(s)
        while dq:
            n = dq.popleft()
            known = assume(n) if (assume is not None and n.kind == "test") else None
            for (m, kind) in n.succ:
                if kind in ("exc", "uncaught") and not follow_exc:
                    continue
                if known is True and kind == "false":
                    continue
                if known is False and kind == "true":
                    continue
                if m.id in seen:
                    continue
                if avoid is not None and avoid(m):
                    continue
                seen[m.id] = n
                dq.append(m)
        self._last_parents = seen
        return {self.nodes[i] for i in seen}

    def path_to(self, node):
        """Witness path (list of nodes) from the last reach() start to `node`."""
        out = []
        cur = node
        parents = self._last_parents
        while cur is not None:
            out.append(cur)
            cur = parents.get(cur.id)
        return list(reversed(out))

    def describe_path(self, nodes, limit=14):
        steps = ["L%d %s%s" % (n.lineno, n.text(), (" [" + n.clone + "]") if n.clone else "")
                 for n in nodes if n.kind not in ("dispatch",)]
        if len(steps) > limit:
            steps = steps[:limit // 2] + ["..."] + steps[-limit // 2:]
        return steps

    def always_passes(self, src, through, targets=None, assume=None, follow_exc=True):
        """True iff every path from `src` to any node in `targets` (default:
        both exits) enters a node satisfying `through`.
        Returns (True, None) or (False, witness_path)."""
        targets = targets or {self.exit, self.raise_exit}
        r = self.reach([src], avoid=through, assume=assume, follow_exc=follow_exc)
        for t in targets:
            if t in r:
                return False, self.path_to(t)
        return True, None

    def dominated_by(self, node, through, assume=None):
        """True iff every path from entry to `node` enters a `through` node first."""
        if through(node):
            return True, None
        r = self.reach([self.entry], avoid=through, assume=assume)
        if node in r:
            return False, self.path_to(node)
        return True, None


def node_calls(node):
    """ast.Call nodes evaluated by this CFG node."""
    a = node.ast
    if a is None:
        return []
    if node.kind == "for":
        a = a.iter
    elif node.kind in ("with_enter",):
        a = a.context_expr
    elif node.kind in ("with_exit", "except", "dispatch"):
        return []
    return [n for n in walk_shallow(a) if isinstance(n, ast.Call)]
